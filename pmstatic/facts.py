"""E4/E5: structured forward must-analysis over one function body.

For every statement and sub-expression the analysis computes the set of *facts* that hold on every path that reaches it:

* branch atoms  (expr_text, polarity)   -- the condition `expr_text` evaluated to `polarity` on every path to here
* event atoms   ('<did:F>', True)       -- a call whose callee expression unparses to F has completed on every path to here
                                           (this is dominance of the call over the site, at expression granularity)
* const atoms   ('NAME', value-polarity) via `x = False` / `x = True` assignments (recorded as (x, False)/(x, True))
* caught atoms  ('<caught:T>', True)    -- inside an `except T` handler

Facts mentioning a name or attribute chain that is re-assigned are killed.  Merge = intersection.  TOP (None) = unreachable.
"""
import ast

TOP = None


def norm(e):
    return ast.unparse(e)


_FLIP = {ast.IsNot: ast.Is, ast.NotEq: ast.Eq, ast.NotIn: ast.In}


def atoms(test, pol):
    """Facts implied when `test` evaluates truthy (pol=True) / falsy (pol=False)."""
    out = set()
    if isinstance(test, ast.UnaryOp) and isinstance(test.op, ast.Not):
        return atoms(test.operand, not pol)
    if isinstance(test, ast.BoolOp):
        if isinstance(test.op, ast.And) and pol:
            for v in test.values:
                out |= atoms(v, True)
            return out
        if isinstance(test.op, ast.Or) and not pol:
            for v in test.values:
                out |= atoms(v, False)
            return out
        return {(norm(test), pol)}
    if isinstance(test, ast.Compare) and len(test.ops) == 1:
        op = test.ops[0]
        if type(op) in _FLIP:
            t2 = ast.Compare(left=test.left, ops=[_FLIP[type(op)]()], comparators=test.comparators)
            return {(norm(t2), not pol)}
    if isinstance(test, ast.NamedExpr):
        return {(norm(test.target), pol), (norm(test), pol)}
    return {(norm(test), pol)}


def names_in_text(s, _cache={}):
    r = _cache.get(s)
    if r is None:
        try:
            t = ast.parse(s, mode='eval')
        except SyntaxError:
            r = frozenset()
        else:
            r = frozenset(ast.unparse(n) for n in ast.walk(t) if isinstance(n, (ast.Name, ast.Attribute)))
        _cache[s] = r
    return r


def meet(a, b):
    if a is TOP:
        return b
    if b is TOP:
        return a
    return a & b


def did(name):
    return ('<did:%s>' % name, True)


class Facts(object):
    """Run the analysis on a FunctionDef (or on a bare statement list via `body=`)."""

    def __init__(self, func=None, body=None, initial=(), hypothesis=(), noreturn=('sys.exit', 'exit', 'os._exit', 'quit')):
        self.func = func
        self.noreturn = set(noreturn)
        self.at = {}
        self.nodes = {}
        self.returns = []   # (Return stmt, facts)
        self.raises = []    # (Raise stmt, facts)
        self.yields = []    # (Yield/YieldFrom expr, facts)
        self.calls = []     # (Call expr, facts before the call)
        self.loop_exits = []
        self.loop_ids = []   # line numbers of the loops being traversed (for iteration-fresh assignment facts)
        self.hyp = dict(hypothesis)  # expr_text -> polarity assumed; contradicting branches are unreachable
        stmts = body if body is not None else func.body
        start = frozenset(initial) | frozenset((k, v) for k, v in self.hyp.items())
        self.fallthrough = self.block(stmts, start)

    # ------------------------------------------------------------------ helpers
    def record(self, node, facts):
        if facts is TOP:
            return
        k = id(node)
        self.nodes[k] = node
        if k in self.at:
            self.at[k] = self.at[k] & facts
        else:
            self.at[k] = frozenset(facts)

    def facts_at(self, node):
        """Facts holding whenever `node` is reached; None if never reached."""
        return self.at.get(id(node), TOP)

    def reachable(self, node):
        return id(node) in self.at

    def kill(self, facts, targets):
        if facts is TOP:
            return TOP
        killed = set()
        for t in targets:
            if t is None:
                continue
            for n in ast.walk(t):
                if isinstance(n, (ast.Name, ast.Attribute)) and isinstance(getattr(n, 'ctx', None), (ast.Store, ast.Del)):
                    killed.add(ast.unparse(n))
        if not killed:
            return facts
        keep = set(('<assigned:%s>' % x, True) for x in killed)
        # <assigned@L:x>: x was (re)bound during the current iteration of the loop at line L, on every path to here
        for L in self.loop_ids:
            keep |= set(('<assigned@%d:%s>' % (L, x), True) for x in killed)
        for (k, p) in facts:
            if k.startswith('<'):
                if k.startswith('<def:') and any(k.startswith('<def:%s=' % x) for x in killed):
                    continue
                if k.startswith('<assigned@') and any(k.endswith(':%s>' % x) for x in killed) and int(k[10:k.index(':')]) not in self.loop_ids:
                    continue
                keep.add((k, p))
                continue
            mentioned = names_in_text(k)
            if any(m == x or m.startswith(x + '.') or m.startswith(x + '[') for m in mentioned for x in killed):
                continue
            keep.add((k, p))
        return frozenset(keep)

    def assume(self, facts, test, pol):
        """facts + atoms(test,pol); TOP when this contradicts the hypothesis or an existing constant fact."""
        if facts is TOP:
            return TOP
        new = atoms(test, pol)
        for (k, p) in new:
            if (k, not p) in facts and k in self.hyp:
                return TOP
            if k in self.hyp and self.hyp[k] != p:
                return TOP
        # contradiction with a constant-assignment fact (x = False; if x: ...)
        for (k, p) in new:
            if (k, not p) in facts and ('<const:%s>' % k, True) in facts:
                return TOP
        return frozenset(facts | new)

    # ------------------------------------------------------------------ expressions (evaluation order, short circuit)
    def expr(self, e, facts):
        """Record facts at e and its sub-expressions; return the facts after e has been evaluated."""
        if e is None or facts is TOP:
            return facts
        self.record(e, facts)
        if isinstance(e, ast.BoolOp):
            cur = facts
            first = True
            out = facts
            for v in e.values:
                after = self.expr(v, cur)
                if first:
                    out = after  # only the first operand is evaluated unconditionally
                    first = False
                cur = self.assume(after, v, isinstance(e.op, ast.And)) if after is not TOP else TOP
                if cur is TOP:
                    break
            return out
        if isinstance(e, ast.IfExp):
            after = self.expr(e.test, facts)
            self.expr(e.body, self.assume(after, e.test, True))
            self.expr(e.orelse, self.assume(after, e.test, False))
            return after
        if isinstance(e, (ast.ListComp, ast.SetComp, ast.GeneratorExp, ast.DictComp)):
            cur = facts
            first_iter_after = facts
            for i, g in enumerate(e.generators):
                a = self.expr(g.iter, cur)
                if i == 0:
                    first_iter_after = a
                cur = self.kill(cur, [g.target])
                for cond in g.ifs:
                    self.expr(cond, cur)
                    cur = self.assume(cur, cond, True)
                    if cur is TOP:
                        return first_iter_after
            for sub in ([e.key, e.value] if isinstance(e, ast.DictComp) else [e.elt]):
                self.expr(sub, cur)
            return first_iter_after
        if isinstance(e, ast.Lambda):
            self.expr(e.body, frozenset(f for f in facts if f[0].startswith('<')) if facts is not TOP else TOP)
            return facts
        if isinstance(e, (ast.Yield, ast.YieldFrom)):
            after = self.expr(e.value, facts)
            self.yields.append((e, facts))
            return after
        if isinstance(e, ast.Call):
            cur = self.expr(e.func, facts)
            for a in e.args:
                cur = self.expr(a.value if isinstance(a, ast.Starred) else a, cur)
            for kw in e.keywords:
                cur = self.expr(kw.value, cur)
            self.calls.append((e, cur))
            if cur is TOP:
                return TOP
            return frozenset(cur | {did(norm(e.func))})
        if isinstance(e, ast.NamedExpr):
            cur = self.expr(e.value, facts)
            return self.kill(cur, [e.target])
        cur = facts
        for c in ast.iter_child_nodes(e):
            if isinstance(c, ast.expr):
                cur = self.expr(c, cur)
            elif isinstance(c, ast.keyword):
                cur = self.expr(c.value, cur)
            elif isinstance(c, ast.comprehension):  # pragma: no cover
                pass
        return cur

    # ------------------------------------------------------------------ statements
    def block(self, stmts, facts):
        for s in stmts:
            facts = self.stmt(s, facts)
        return facts

    def stmt(self, s, facts):
        if facts is TOP:
            return TOP
        self.record(s, facts)
        if isinstance(s, ast.If):
            after = self.expr(s.test, facts)
            t = self.block(s.body, self.assume(after, s.test, True))
            f = self.block(s.orelse, self.assume(after, s.test, False))
            return meet(t, f)
        if isinstance(s, (ast.For, ast.AsyncFor, ast.While)):
            if isinstance(s, ast.While):
                entry = facts
            else:
                entry = self.expr(s.iter, facts)
            head = entry
            ex = {'break': TOP, 'continue': TOP}
            self.loop_ids.append(s.lineno)
            for _ in range(6):
                self.loop_exits.append({'break': TOP, 'continue': TOP})
                if isinstance(s, ast.While):
                    after_test = self.expr(s.test, head)
                    body_in = self.assume(after_test, s.test, True)
                else:
                    after_test = head
                    body_in = self.kill(head, [s.target])
                out = self.block(s.body, body_in)
                ex = self.loop_exits.pop()
                back = meet(out, ex['continue'])
                new_head = entry if back is TOP else (entry & back)
                if new_head == head:
                    break
                head = new_head
            self.loop_ids.pop()
            if isinstance(s, ast.While):
                is_true_const = isinstance(s.test, ast.Constant) and bool(s.test.value)
                after = TOP if is_true_const else self.assume(self.expr(s.test, head), s.test, False)
            else:
                after = head
            after = self.block(s.orelse, after) if after is not TOP else TOP
            return meet(after, ex['break'])
        if isinstance(s, (ast.Break, ast.Continue)):
            key = 'break' if isinstance(s, ast.Break) else 'continue'
            if self.loop_exits:
                cur = self.loop_exits[-1][key]
                self.loop_exits[-1][key] = facts if cur is TOP else (cur & facts)
            return TOP
        if isinstance(s, ast.Return):
            after = self.expr(s.value, facts)
            self.returns.append((s, after if after is not TOP else facts))
            return TOP
        if isinstance(s, ast.Raise):
            self.expr(s.exc, facts)
            self.raises.append((s, facts))
            return TOP
        if isinstance(s, (ast.Try,) + ((ast.TryStar,) if hasattr(ast, 'TryStar') else ())):
            marker = ('<in-try:%d>' % s.lineno, True)
            surv = facts
            cur = frozenset(facts | {marker})
            for h in s.handlers:
                cur = frozenset(cur | {('<try-catches:%s>' % (norm(h.type) if h.type is not None else 'BaseException'), True)})
            for b in s.body:
                cur = self.stmt(b, cur)
                if cur is TOP:
                    break
                surv = surv & cur
            normal = cur
            strip = lambda fs: fs if fs is TOP else frozenset(f for f in fs if f != marker and not f[0].startswith('<try-catches:') or f in facts)
            normal = strip(normal)
            if normal is not TOP:
                normal = self.block(s.orelse, normal)
            outs = [normal]
            for h in s.handlers:
                hf = frozenset(strip(surv) | {('<caught:%s>' % (norm(h.type) if h.type is not None else 'BaseException'), True)})
                if h.name:
                    hf = self.kill(hf, [ast.Name(id=h.name, ctx=ast.Store())])
                self.record(h, hf)
                ho = self.block(h.body, hf)
                if ho is not TOP:
                    ho = frozenset(f for f in ho if not f[0].startswith('<caught:') or f in facts)
                outs.append(ho)
            res = TOP
            for o in outs:
                if o is not TOP:
                    res = o if res is TOP else (res & o)
            if s.finalbody:
                res2 = self.block(s.finalbody, res if res is not TOP else strip(surv))
                return res2 if res is not TOP else TOP
            return res
        if isinstance(s, (ast.With, ast.AsyncWith)):
            cur = facts
            for it in s.items:
                cur = self.expr(it.context_expr, cur)
            cur = self.kill(cur, [it.optional_vars for it in s.items])
            wm = ('<in-with:%d>' % s.lineno, True)
            out = self.block(s.body, frozenset(cur | {wm}) if cur is not TOP else TOP)
            if out is TOP:
                return TOP
            out = frozenset(f for f in out if f != wm)
            return frozenset(out | {('<with-closed:%d>' % s.lineno, True)})
        if isinstance(s, ast.Assert):
            after = self.expr(s.test, facts)
            return self.assume(after, s.test, True)
        if isinstance(s, (ast.FunctionDef, ast.AsyncFunctionDef, ast.ClassDef)):
            return facts
        if hasattr(ast, 'Match') and isinstance(s, ast.Match):
            after = self.expr(s.subject, facts)
            res = TOP
            for c in s.cases:
                o = self.block(c.body, after)
                res = meet(res, o) if res is not TOP else o
            return meet(res, after)
        # ---- simple statements
        if isinstance(s, ast.Assign):
            cur = self.expr(s.value, facts)
            for t in s.targets:
                cur = self._target_subexprs(t, cur)
            cur = self.kill(cur, s.targets)
            if cur is not TOP and len(s.targets) == 1 and isinstance(s.targets[0], (ast.Name, ast.Attribute)):
                t = norm(s.targets[0])
                if isinstance(s.value, ast.Constant) and isinstance(s.value.value, bool):
                    cur = frozenset(cur | {(t, s.value.value), ('<const:%s>' % t, True)})
                elif isinstance(s.value, ast.Constant) and s.value.value is None:
                    cur = frozenset(cur | {(t, False), ('<const:%s>' % t, True), ('%s is None' % t, True)})
                cur = frozenset(cur | {('<def:%s=%s>' % (t, norm(s.value)), True)})
            return cur
        if isinstance(s, ast.AugAssign):
            cur = self.expr(s.value, facts)
            cur = self._target_subexprs(s.target, cur)
            return self.kill(cur, [s.target])
        if isinstance(s, ast.AnnAssign):
            cur = self.expr(s.value, facts) if s.value is not None else facts
            return self.kill(cur, [s.target])
        if isinstance(s, ast.Delete):
            return self.kill(facts, s.targets)
        if isinstance(s, ast.Expr):
            after = self.expr(s.value, facts)
            if isinstance(s.value, ast.Call) and norm(s.value.func) in self.noreturn:
                self.raises.append((s, facts))
                return TOP
            return after
        cur = facts
        for c in ast.iter_child_nodes(s):
            if isinstance(c, ast.expr):
                cur = self.expr(c, cur)
        return cur

    def _target_subexprs(self, t, facts):
        """Evaluate the sub-expressions of an assignment target (the base of `a.b = ...` / `a[i] = ...`)."""
        if isinstance(t, ast.Attribute):
            self.record(t, facts)
            return self.expr(t.value, facts)
        if isinstance(t, ast.Subscript):
            self.record(t, facts)
            cur = self.expr(t.value, facts)
            return self.expr(t.slice, cur)
        if isinstance(t, (ast.Tuple, ast.List)):
            cur = facts
            for x in t.elts:
                cur = self._target_subexprs(x, cur)
            return cur
        if isinstance(t, ast.Starred):
            return self._target_subexprs(t.value, facts)
        self.record(t, facts)
        return facts


# ---------------------------------------------------------------------- fact queries
def holds(facts, text, pol=True):
    return facts is not TOP and (text, pol) in facts


def has_did(facts, name):
    return facts is not TOP and did(name) in facts


def fact_texts(facts):
    if facts is TOP:
        return ['<unreachable>']
    return sorted('%s%s' % ('' if p else 'not ', k) for (k, p) in facts if not k.startswith('<def:') and not k.startswith('<const:'))


def parse_fact(text):
    try:
        return ast.parse(text, mode='eval').body
    except SyntaxError:
        return None


def implies_le(facts, a, b):
    """Do the facts imply  a <= b  (texts of two expressions)?  Returns 'lt', 'le' or None."""
    if facts is TOP:
        return None
    best = None
    for (k, p) in facts:
        if k.startswith('<'):
            continue
        t = parse_fact(k)
        if not (isinstance(t, ast.Compare) and len(t.ops) == 1):
            continue
        left, right, op = norm(t.left), norm(t.comparators[0]), type(t.ops[0])
        if not p:
            op = {ast.Gt: ast.LtE, ast.GtE: ast.Lt, ast.Lt: ast.GtE, ast.LtE: ast.Gt}.get(op)
            if op is None:
                continue
        if op in (ast.Gt, ast.GtE):
            left, right = right, left
            op = {ast.Gt: ast.Lt, ast.GtE: ast.LtE}[op]
        if op not in (ast.Lt, ast.LtE):
            continue
        if left == a and right == b:
            r = 'lt' if op is ast.Lt else 'le'
            if best is None or r == 'lt':
                best = r
    return best


def find_func_node(tree, qual_tail):
    """Find a def by dotted path inside a module tree, e.g. 'NameAssigner.__call__.should_rename'."""
    cur = tree.body
    node = None
    for p in qual_tail.split('.'):
        node = None
        stack = list(cur)
        while stack:
            n = stack.pop(0)
            if isinstance(n, (ast.FunctionDef, ast.AsyncFunctionDef, ast.ClassDef)):
                if n.name == p:
                    node = n
                    break
                continue
            for c in ast.iter_child_nodes(n):
                if isinstance(c, (ast.stmt, ast.ExceptHandler)):
                    stack.append(c)
        if node is None:
            return None
        cur = node.body
    return node
