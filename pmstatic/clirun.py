"""The command line entry point, run by the abstract interpreter inside a modelled environment.

`main()` of python_minifier.__main__ is evaluated on a scenario: an argument vector, a file system (files with byte contents, directories with
their walk listing, unreadable files), the bytes on stdin, the environment, and - per source - what the API function minify() answers (a text,
or an exception). Everything outside the package is answered by the checker:

  argparse          a real argparse parser of the standard library is driven through the calls the repository makes (ArgumentParser,
                    add_argument, add_mutually_exclusive_group, add_argument_group, parse_args, error); the repository's own code decides
                    which arguments exist
  sys.argv/stdin/stdout/stderr/exit, os.path.isdir, os.walk, os.path.join, os.environ.get, open/read/write
                    recorded in a trace and answered from the scenario
  minify            recorded with its keyword arguments and answered from the scenario

No shape of main(), parse_args() or do_minify() is assumed: helpers, early returns, tuples of results are all just evaluated. The result is the
ordered trace of effects and how the run ended; the properties (C13, C14, C15) compare it with the documented behaviour of the tool.
"""
import argparse
import ast
import os

import io
import tokenize

from .absint import Closure, Interp, Obj, OneShot, TOP, _Exit, _Raise
from .model import AnalysisError

MAIN = 'python_minifier.__main__'


class Scenario(object):
    def __init__(self, argv, files=None, dirs=None, stdin=b'', env=None, answers=None, unreadable=(), default_answer=None, walk_errors=(), dangling=()):
        self.argv = list(argv)
        self.files = dict(files or {})            # path -> bytes
        self.dirs = dict(dirs or {})              # path -> [(root, [dirs], [files], via_symlink)]
        self.stdin = stdin
        self.env = dict(env or {})
        self.answers = dict(answers or {})        # source bytes -> ('ok', text) | ('raise', exception name)
        self.unreadable = set(unreadable)
        self.default_answer = default_answer
        self.dangling = set(dangling)           # names a directory lists that are symbolic links to nothing: not a file, cannot be opened
        self.walk_errors = set(walk_errors)     # directories whose listing fails: os.walk reports an OSError to its onerror callback

    def answer(self, source):
        if source in self.answers:
            return self.answers[source]
        if self.default_answer is not None:
            return self.default_answer
        return ('ok', 'm')


class Result(object):
    def __init__(self, trace, outcome, namespace, parser):
        self.trace = trace          # list of tuples, in order
        self.outcome = outcome      # ('return', v) | ('exit', code) | ('raise', what)
        self.namespace = namespace  # dict of the parsed arguments, or None
        self.parser = parser        # the real argparse parser the repository's calls produced, or None

    def events(self, *kinds):
        return [t for t in self.trace if t[0] in kinds]

    def ok(self):
        return self.outcome[0] == 'return' or (self.outcome[0] == 'exit' and self.outcome[1] in (0, None))

    def failed(self):
        return not self.ok()


class _ParserError(Exception):
    pass


def _clean(v, default=None):
    """Values the interpreter could not determine (module-level version string, formatter classes, docstrings) are irrelevant to parsing."""
    if v is TOP or isinstance(v, Obj):
        return default
    return v


def run(model, sc, entry='main', max_paths=8):
    trace = []
    state = {'parser': None, 'ns': None}

    def real(o):
        if isinstance(o, Obj) and '_real' in o.attrs:
            return o.attrs['_real']
        return None

    # ---------------------------------------------------------------- argparse
    def h_parser(I, e, args, kw, env):
        kws = {}
        for k in ('prog', 'description', 'epilog', 'usage', 'add_help', 'allow_abbrev', 'prefix_chars'):
            if k in kw and _clean(kw[k]) is not None:
                kws[k] = kw[k]
        p = argparse.ArgumentParser(**kws)

        def error(message):
            raise _ParserError(message)
        p.error = error
        state['parser'] = p
        return Obj('ArgumentParser', _real=p)

    def h_group(kind):
        def h(I, e, args, kw, env):
            r = real(I.last_recv)
            if r is None:
                return NotImplemented
            a = [_clean(x, '') for x in args]
            k = {k_: _clean(v) for k_, v in kw.items() if _clean(v) is not None}
            return Obj('ArgumentGroup', _real=getattr(r, kind)(*a, **k))
        return h

    def h_add_argument(I, e, args, kw, env):
        r = real(I.last_recv)
        if r is None:
            return NotImplemented
        k = {}
        for k_, v in kw.items():
            if k_ == 'version':
                k[k_] = _clean(v, 'VERSION')
            elif k_ == 'type':
                if v in (str, int, float):
                    k[k_] = v
            elif _clean(v) is not None or k_ == 'default':
                k[k_] = _clean(v)
        r.add_argument(*[_clean(a, '') for a in args], **k)
        return Obj('Action')

    def h_parse_args(I, e, args, kw, env):
        r = real(I.last_recv)
        if r is None:
            return NotImplemented
        argv = sc.argv if not args or args[0] is None else args[0]
        trace.append(('parse_args', tuple(argv)))
        try:
            ns = r.parse_args(list(argv))
        except _ParserError as ex:
            trace.append(('stderr', 'usage error: %s' % ex))
            raise _Exit(2)
        except SystemExit as ex:   # --help / --version
            raise _Exit(ex.code)
        state['ns'] = dict(vars(ns))
        o = Obj('Namespace', closed=True)
        o.attrs.update(vars(ns))
        return o

    def h_error(I, e, args, kw, env):
        r = real(I.last_recv)
        if r is None:
            return NotImplemented
        trace.append(('stderr', 'usage error: %s' % (args[0] if args else '')))
        raise _Exit(2)

    # ---------------------------------------------------------------- process and file system
    def h_stdin_read(I, e, args, kw, env):
        trace.append(('read-stdin',))
        return sc.stdin

    def h_stdout_bytes(I, e, args, kw, env):
        trace.append(('stdout-bytes', args[0] if args else None))
        return None

    def h_stdout_text(I, e, args, kw, env):
        trace.append(('stdout-text', args[0] if args else None))
        return None

    def h_stderr(I, e, args, kw, env):
        trace.append(('stderr', args[0] if args else None))
        return None

    def h_isdir(I, e, args, kw, env):
        return args[0] in sc.dirs

    def h_isfile(I, e, args, kw, env):
        return args[0] in sc.files

    def h_exists(I, e, args, kw, env):
        return args[0] in sc.files or args[0] in sc.dirs

    def h_walk(I, e, args, kw, env):
        top = args[0]
        follow = kw.get('followlinks', args[3] if len(args) > 3 else False)
        trace.append(('walk', top, bool(follow) if follow is not TOP else None))
        out = []
        if top in sc.walk_errors:
            onerror = kw.get('onerror', args[2] if len(args) > 2 else None)
            trace.append(('walk-error', top, onerror is not None))
            if isinstance(onerror, Closure):
                I.call_closure(onerror, [Obj('OSError', errno=13, filename=top)], {})
            return out   # os.walk skips what it cannot list
        for (root, dirs, files, via_symlink) in sc.dirs.get(top, []):
            if via_symlink and not follow:
                continue
            out.append((root, list(dirs), list(files)))
        return out

    def listing(path):
        """(sub-directory names, file names, names of sub-directories reached through a symbolic link) of a directory of the scenario, or None."""
        for top, levels in sc.dirs.items():
            for (root, dirs, files, _via) in levels:
                if root == path:
                    linked = {d for d in dirs for (r2, _d, _f, via2) in levels if via2 and r2 == os.path.join(root, d)}
                    return list(dirs), list(files), linked
        return None

    def h_scandir(I, e, args, kw, env):
        path = args[0] if args else '.'
        trace.append(('scandir', path))
        if path in sc.walk_errors:
            trace.append(('walk-error', path, True))
            raise _Raise('PermissionError')
        ls = listing(path)
        if ls is None:
            raise _Raise('NotADirectoryError' if path in sc.files else 'FileNotFoundError')
        dirs, files, linked = ls
        return [Obj('DirEntry', name=n, path=os.path.join(path, n), _dir=True, _link=n in linked) for n in dirs] + \
            [Obj('DirEntry', name=n, path=os.path.join(path, n), _dir=False, _link=False) for n in files]

    def h_listdir(I, e, args, kw, env):
        return [en.attrs['name'] for en in h_scandir(I, e, args, kw, env)]

    def entry_method(which):
        def h(I, e, args, kw, env):
            en = I.last_recv
            if not (isinstance(en, Obj) and en.cls == 'DirEntry'):
                return NotImplemented
            follow = kw.get('follow_symlinks', args[0] if args else True)
            if which == 'is_symlink':
                return en.attrs['_link']
            is_dir = en.attrs['_dir'] and (bool(follow) or not en.attrs['_link'])
            return is_dir if which == 'is_dir' else (not en.attrs['_dir'])
        return h

    def h_glob(I, e, args, kw, env):
        """glob.glob / iglob over the files and directories of the scenario (component-wise fnmatch, dot files only for a leading dot)."""
        import fnmatch
        import glob as _glob
        pattern = args[0] if args else kw.get('pathname')
        if not isinstance(pattern, str) or kw.get('root_dir') is not None:
            return TOP
        recursive = bool(kw.get('recursive', False))
        trace.append(('glob', pattern))
        known = set(sc.files) | set(sc.dangling)
        for top, levels in sc.dirs.items():
            for (root, dirs, files, _via) in levels:
                known.add(root)
                known.update(os.path.join(root, n) for n in list(dirs) + list(files))
        if not _glob.has_magic(pattern):
            return [pattern] if pattern in known else []
        want = pattern.split('/')
        out = []
        for path in sorted(known):
            have = path.split('/')

            def match(wi, hi):
                if wi == len(want):
                    return hi == len(have)
                w = want[wi]
                if recursive and w == '**':
                    return any(match(wi + 1, k) for k in range(hi, len(have) + 1) if not any(h.startswith('.') for h in have[hi:k]))
                if hi >= len(have):
                    return False
                h = have[hi]
                if _glob.has_magic(w):
                    if h.startswith('.') and not w.startswith('.'):
                        return False
                    if not fnmatch.fnmatchcase(h, w):
                        return False
                elif h != w:
                    return False
                return match(wi + 1, hi + 1)
            if match(0, 0):
                out.append(path)
        return out

    def h_join(I, e, args, kw, env):
        if any(a is TOP or isinstance(a, Obj) for a in args):
            return TOP
        return os.path.join(*args)

    def h_environ_get(I, e, args, kw, env):
        trace.append(('env', args[0] if args else None))
        return sc.env.get(args[0], args[1] if len(args) > 1 else None) if args and isinstance(args[0], str) else TOP

    def h_open(I, e, args, kw, env):
        path = args[0] if args else kw.get('file')
        mode = args[1] if len(args) > 1 else kw.get('mode', 'r')
        trace.append(('open', path, mode))
        if isinstance(mode, str) and not any(c in mode for c in 'wax+'):
            if path in sc.unreadable:
                raise _Raise('PermissionError')
            if path not in sc.files:
                raise _Raise('FileNotFoundError')
        return Obj('File', path=path, mode=mode)

    def h_read(I, e, args, kw, env):
        f = I.last_recv
        if isinstance(f, Obj) and f.cls == 'Stream' and f.attrs['name'] == 'stdin':
            trace.append(('read-stdin',))
            return sc.stdin
        if not (isinstance(f, Obj) and f.cls == 'File'):
            return NotImplemented
        trace.append(('read', f.attrs['path'], f.attrs['mode']))
        data = sc.files.get(f.attrs['path'], b'')
        if isinstance(f.attrs['mode'], str) and 'b' not in f.attrs['mode']:
            return data.decode('utf-8', 'replace').replace('\r\n', '\n').replace('\r', '\n')   # text mode: decoding and newline translation
        return data

    def h_write(I, e, args, kw, env):
        f = I.last_recv
        if isinstance(f, Obj) and f.cls == 'Stream':
            # a standard stream reached through a variable (stream = sys.stdout.buffer; stream.write(data))
            kind = {('stdout', True): 'stdout-bytes', ('stdout', False): 'stdout-text', ('stderr', False): 'stderr', ('stderr', True): 'stderr'}[(f.attrs['name'], f.attrs['binary'])]
            trace.append((kind, args[0] if args else None))
            return None
        if not (isinstance(f, Obj) and f.cls == 'File'):
            return NotImplemented
        trace.append(('write', f.attrs['path'], f.attrs['mode'], args[0] if args else None))
        return None

    def h_minify(I, e, args, kw, env):
        source = args[0] if args else kw.get('source')
        kw = {k: (v.take() if isinstance(v, OneShot) else v) for k, v in kw.items()}   # minify() iterates its list arguments once
        trace.append(('minify', source, dict(kw), tuple(args[1:])))
        if not isinstance(source, (bytes, str)):
            raise AnalysisError('UNDECIDED: minify() is called with a source the scenario does not determine: %r' % (source,))
        kind, val = sc.answer(source)
        if kind == 'raise':
            trace.append(('minify-raised', source, val))
            raise _Raise(val)
        trace.append(('minify-returned', source, val))
        return val

    def h_detect_encoding(I, e, args, kw, env):
        # tokenize.detect_encoding(io.BytesIO(<bytes>).readline): the bytes are whatever the innermost determined bytes-valued argument is
        data = None
        for sub in ast.walk(e):
            if isinstance(sub, ast.Call) and sub is not e:
                for a in sub.args:
                    try:
                        v = I.ev(a, env)
                    except Exception:
                        continue
                    if isinstance(v, bytes):
                        data = v
        if data is None:
            return TOP
        try:
            return tokenize.detect_encoding(io.BytesIO(data).readline)
        except SyntaxError:
            raise _Raise('SyntaxError')

    hooks = {
        'tokenize.detect_encoding': h_detect_encoding, 'detect_encoding': h_detect_encoding,
        'argparse.ArgumentParser': h_parser, 'ArgumentParser': h_parser,
        '.add_mutually_exclusive_group': h_group('add_mutually_exclusive_group'), '.add_argument_group': h_group('add_argument_group'),
        '.add_argument': h_add_argument, '.parse_args': h_parse_args, '.error': h_error,
        'sys.stdin.buffer.read': h_stdin_read, 'sys.stdin.read': h_stdin_read,
        'sys.stdout.buffer.write': h_stdout_bytes, 'sys.stdout.write': h_stdout_text, 'sys.stderr.write': h_stderr, 'print': h_stdout_text,
        'os.path.isdir': h_isdir, 'os.path.isfile': h_isfile, 'os.path.exists': h_exists, 'os.walk': h_walk, 'os.path.join': h_join,
        'os.environ.get': h_environ_get, 'os.getenv': h_environ_get,
        'glob.glob': h_glob, 'glob.iglob': h_glob, 'glob': h_glob, 'iglob': h_glob,
        'os.scandir': h_scandir, 'os.listdir': h_listdir, '.is_dir': entry_method('is_dir'), '.is_file': entry_method('is_file'), '.is_symlink': entry_method('is_symlink'),
        'os.path.islink': lambda I, e, args, kw, env: args[0] in sc.dangling,
        'os.path.lexists': lambda I, e, args, kw, env: args[0] in sc.files or args[0] in sc.dirs or args[0] in sc.dangling,
        'metadata.version': lambda I, e, args, kw, env: '0.0.0', 'importlib.metadata.version': lambda I, e, args, kw, env: '0.0.0',
        'open': h_open, 'io.open': h_open, '.read': h_read, '.write': h_write,
        'value:sys.stdout': Obj('Stream', name='stdout', binary=False), 'value:sys.stdout.buffer': Obj('Stream', name='stdout', binary=True),
        'value:sys.stderr': Obj('Stream', name='stderr', binary=False), 'value:sys.stderr.buffer': Obj('Stream', name='stderr', binary=True),
        'value:sys.stdin': Obj('Stream', name='stdin', binary=False), 'value:sys.stdin.buffer': Obj('Stream', name='stdin', binary=True),
        'minify': h_minify, 'python_minifier.minify': h_minify,
    }
    I = Interp(model, MAIN, hooks)
    I.MAX_PATHS = max_paths
    res = I.explore(lambda: I.call_function(MAIN + '.' + entry, []))
    if len(res) != 1:
        raise AnalysisError('UNDECIDED: %s(%s) forked into %d paths: %s' % (entry, ' '.join(sc.argv), len(res), [r[2][:2] for r in res][:2]))
    (o, _ev, unk) = res[0]
    if o[0] == 'abort':
        raise AnalysisError('UNDECIDED: %s(%s) -> %s %s' % (entry, ' '.join(sc.argv), o, unk[:3]))
    if o[0] == 'exit' and (o[1] is TOP or isinstance(o[1], Obj)):
        raise AnalysisError('UNDECIDED: %s(%s) exits with an undetermined status' % (entry, ' '.join(sc.argv)))
    return Result(trace, o, state['ns'], state['parser'])


# ---------------------------------------------------------------------- the documented behaviour
def flag_meaning(option_string):
    """--no-x-y -> ('x_y', False); --x-y -> ('x_y', True)."""
    name = option_string.lstrip('-')
    if name.startswith('no-'):
        return name[3:].replace('-', '_'), False
    return name.replace('-', '_'), True


def option_flags(parser):
    """Long option strings of the minification options (everything except help, version and the output selection)."""
    out = []
    for a in parser._actions:
        longs = [s for s in a.option_strings if s.startswith('--')]
        if not longs or longs[0] in ('--help', '--version', '--output', '--in-place'):
            continue
        out.append((longs[0], a))
    return out
