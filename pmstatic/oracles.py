"""Oracles derived at check time from the interpreter that runs the check (never from the repository).

O1  ASDL: node classes, fields, field types          (ast.<Class>.__doc__ is the ASDL production)
O2  required parentheses per (slot, child class)     (parser probes)
O3  operator precedence / associativity              (parser probes)
O4  token separation                                 (tokenize probes)
O5  scope of syntactic slots                         (symtable probes)
"""
import ast
import io
import re
import symtable
import sys
import tokenize

from .model import AnalysisError

# ---------------------------------------------------------------------- O1
_ASDL = None
SORTS = ('mod', 'stmt', 'expr', 'expr_context', 'boolop', 'operator', 'unaryop', 'cmpop', 'excepthandler', 'pattern', 'type_param', 'type_ignore')
DEPRECATED = {'Num', 'Str', 'Bytes', 'NameConstant', 'Ellipsis', 'Index', 'ExtSlice', 'Suite', 'Param', 'AugLoad', 'AugStore'}


class NodeClass(object):
    def __init__(self, name, sort, fields):
        self.name = name
        self.sort = sort          # one of SORTS or 'product'
        self.fields = fields      # [(field name, type name, quantifier '' | '?' | '*')]

    def stmt_list_fields(self):
        return [f for (f, t, q) in self.fields if q == '*' and t in ('stmt', 'match_case')]

    def __repr__(self):
        return '%s(%s)' % (self.name, ', '.join('%s%s %s' % (t, q, f) for f, t, q in self.fields))


def asdl():
    global _ASDL
    if _ASDL is not None:
        return _ASDL
    out = {}
    for name, cls in sorted(vars(ast).items()):
        if not (isinstance(cls, type) and issubclass(cls, ast.AST)) or cls is ast.AST:
            continue
        if name in DEPRECATED or name in SORTS or name.startswith('_'):
            continue
        if cls.__module__ not in ('ast', '_ast'):
            continue
        doc = cls.__doc__ or ''
        m = re.match(r'^%s(?:\((.*)\))?$' % re.escape(name), doc.strip().replace('\n', ' '))
        if m is None:
            continue
        fields = []
        if m.group(1):
            for part in m.group(1).split(','):
                part = part.strip()
                if not part:
                    continue
                t, f = part.split()
                q = ''
                if t.endswith('*') or t.endswith('?'):
                    q, t = t[-1], t[:-1]
                fields.append((f, t, q))
        sort = 'product'
        for s in SORTS:
            base = getattr(ast, s, None)
            if base is not None and issubclass(cls, base) and cls is not base:
                sort = s
        out[name] = NodeClass(name, sort, fields)
    if len(out) < 80:
        raise AnalysisError('ASDL oracle: only %d node classes recovered from ast docstrings' % len(out))
    _ASDL = out
    return out


def classes_of(*sorts):
    return sorted(c.name for c in asdl().values() if c.sort in sorts)


def identifier_fields():
    """[(class, field, quantifier)] for every ASDL field of type identifier"""
    out = []
    for c in asdl().values():
        for (f, t, q) in c.fields:
            if t == 'identifier':
                out.append((c.name, f, q))
    return sorted(out)


# ---------------------------------------------------------------------- parse helpers shared by the probe oracles
def strip_pos(t):
    for n in ast.walk(t):
        for a in ('lineno', 'col_offset', 'end_lineno', 'end_col_offset'):
            if hasattr(n, a):
                delattr(n, a)
    return t


def dump(src, mode='exec'):
    try:
        return ast.dump(strip_pos(ast.parse(src, mode=mode)))
    except (SyntaxError, ValueError, MemoryError, RecursionError):
        return None


# ---------------------------------------------------------------------- O4 tokens
def toks(s):
    try:
        return [t.string for t in tokenize.generate_tokens(io.StringIO(s).readline) if t.type not in (tokenize.NEWLINE, tokenize.ENDMARKER, tokenize.NL, tokenize.INDENT, tokenize.DEDENT)
                and t.string != '']
    except (tokenize.TokenError, SyntaxError, IndentationError):
        return None


def must_separate(prev, nxt):
    """Do the two token texts need whitespace between them to be read back as exactly these two tokens?"""
    a, b = toks(prev), toks(nxt)
    if a is None or b is None:
        return None
    j = toks(prev + nxt)
    if j is None:
        return True
    # f-strings tokenize into several parts on 3.12; compare by re-joining
    return j != a + b


# ---------------------------------------------------------------------- O5 symtable
def scope_tables(source):
    """[(path tuple of scope names, symtable)] for every scope of the program, depth first."""
    top = symtable.symtable(source, 'probe', 'exec')
    out = []

    def rec(t, path):
        out.append((path, t))
        for c in t.get_children():
            rec(c, path + (c.get_name(),))
    rec(top, ())
    return out


def innermost_mention(source, name):
    """Path of the innermost scope whose symbol table mentions `name` (deepest path; ties cannot happen for unique markers)."""
    best = None
    for (path, t) in scope_tables(source):
        try:
            t.lookup(name)
        except KeyError:
            continue
        if best is None or len(path) > len(best):
            best = path
    return best


def binding_scope(source, name):
    """Path of the scope in which `name` is bound (assigned / parameter / imported), deepest first."""
    best = None
    for (path, t) in scope_tables(source):
        try:
            s = t.lookup(name)
        except KeyError:
            continue
        if (s.is_assigned() or s.is_parameter() or s.is_imported()) and (s.is_local() or path == ()) and not s.is_free() and not (path != () and (s.is_global() or s.is_nonlocal())):
            if best is None or len(path) > len(best):
                best = path
    if best is None:
        # assigned in an inner scope that treats the name as global (assignment expression in a module-level comprehension)
        for (path, t) in scope_tables(source):
            try:
                s = t.lookup(name)
            except KeyError:
                continue
            if s.is_assigned() and s.is_global():
                return ()
    return best
