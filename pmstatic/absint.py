"""E8: abstract interpreter for the repository's small guard predicates and printer helpers.

The interpreter is mine; the only inputs it is given are *descriptors*: `Obj(cls, attrs)` values that stand for every
node of an AST class (with the few fields a predicate inspects filled in by the enumerating rule, all others unknown), plain
constants, and TOP (unknown).  Results are three-valued: a decision whose condition is TOP forks the evaluation and both
branches are explored (bounded); whatever a rule needs that stays TOP is reported as UNDECIDED (AnalysisError), never as a pass.

No function of the repository is ever called by the Python that runs this analyser: method bodies are walked as syntax trees.
"""
import ast
import builtins as _b
import re
import sys
import threading

from .model import AnalysisError, src

sys.setrecursionlimit(max(sys.getrecursionlimit(), 40000))

TOP = type('Top', (), {'__repr__': lambda s: 'TOP', '__bool__': lambda s: (_ for _ in ()).throw(AnalysisError('truth value of TOP used'))})()


class Obj(object):
    """Abstract object: an instance of class `cls` (a name) with the known attributes `attrs`; closed=True means that no
    other attribute exists (hasattr is decidable)."""

    def __init__(self, cls, closed=False, **attrs):
        self.cls = cls
        self.attrs = attrs
        self.closed = closed
        self.qual = None   # qualified name when this is an instance of a repository class

    def __repr__(self):
        return '<%s %s>' % (self.cls, ','.join('%s=%r' % kv for kv in sorted(self.attrs.items(), key=lambda kv: kv[0]) if kv[0] in ('op', 'id', 'value', 'ctx')))

    # Instances of repository classes that define __eq__ / __hash__ (the keys of the hoisting table) behave accordingly when the interpreted
    # program uses them as dictionary keys or compares them; everything else compares by identity.
    def _special(self, name):
        I = Interp.current
        if I is None or I.model is None or self.qual is None:
            return None
        fi = I.model.method(self.qual, name)
        if fi is None:
            return None
        owner = [k for k in I.model.mro(self.qual) if I.model.funcs.get(k + '.' + name) is fi]
        return I, Closure(fi.node, {}, I, self_obj=self, cls=owner[0] if owner else self.qual)

    def __eq__(self, other):
        if self is other:
            return True
        sp = self._special('__eq__')
        if sp is None:
            return False
        r = sp[0].call_closure(sp[1], [other], {})
        return False if r is TOP else bool(r)

    def __ne__(self, other):
        return not self.__eq__(other)

    def __hash__(self):
        sp = self._special('__hash__')
        if sp is None:
            return id(self) >> 4
        r = sp[0].call_closure(sp[1], [], {})
        return r if isinstance(r, int) else id(self) >> 4


import itertools as _itertools
import keyword as _keyword
import math as _math
import string as _string

import base64 as _base64
import binascii as _binascii
import hashlib as _hashlib
import struct as _struct
import zlib as _zlib
import fnmatch as _fnmatch

# modules of the standard library whose functions are pure (value in, value out): called for real on determined arguments
PURE_MODULES = {'string': _string, 'itertools': _itertools, 'keyword': _keyword, 'math': _math, 'hashlib': _hashlib, 'binascii': _binascii, 'base64': _base64,
                'zlib': _zlib, 'struct': _struct, 'fnmatch': _fnmatch}
PURE_VALUE_MODULES = ('_hashlib', '_sha1', '_sha2', '_sha3', '_md5', '_blake2', 'hashlib', 'zlib', '_struct')     # objects those functions return


def _safe_repr(v):
    try:
        return repr(v)[:80]
    except ValueError:      # integers beyond the digit limit of int -> str conversion
        return '<%s too long to print>' % type(v).__name__


class _GenClose(BaseException):
    pass


class _Through(BaseException):
    """Carries whatever the consumer of an inline-run generator raised through the frames of the generator body."""
    def __init__(self, exc):
        BaseException.__init__(self)
        self.exc = exc


threading.stack_size(128 * 1024 * 1024)


class LazyGen(object):
    """A generator object of the interpreted program. The body runs in its own thread, strictly alternating with the consumer (one of them
    is always blocked), so that the code before the first `yield` and between two yields runs exactly when the consumer asks for the next
    element - side effects of a generator interleave with those of its consumer as they do in CPython."""

    def __init__(self, interp, runner, label=''):
        self.interp = interp
        self.runner = runner
        self.label = label
        self.thread = None
        self.done = False
        self.closing = False
        self.to_gen = threading.Semaphore(0)
        self.to_consumer = threading.Semaphore(0)
        self.box = None
        self.state = None      # (module, depth) of the generator while it is suspended

    def __iter__(self):
        return self

    def __next__(self):
        if self.done:
            if getattr(self, 'inlined', False) and not getattr(self, 'finished_inline', True):
                raise _Abort('a generator that was consumed in place is resumed by another holder')
            raise StopIteration
        I = self.interp
        consumer_state = (I.module, I.depth)
        if self.thread is None:
            self.thread = threading.Thread(target=self._main, daemon=True)
            self.thread.start()
        else:
            I.module, I.depth = self.state
            self.to_gen.release()
        self.to_consumer.acquire()
        I.module, I.depth = consumer_state
        kind = self.box[0]
        if kind == 'yield':
            return self.box[1]
        self.done = True
        if kind == 'exc':
            raise self.box[1]
        raise StopIteration

    next = __next__

    def _main(self):
        try:
            self.runner(self)
            self.box = ('done',)
        except _GenClose:
            self.box = ('done',)
        except BaseException as e:   # _Raise, _Abort, AnalysisError ...: delivered to the consumer
            self.box = ('exc', e)
        self.to_consumer.release()

    def yield_(self, v):
        I = self.interp
        self.state = (I.module, I.depth)
        self.box = ('yield', v)
        self.to_consumer.release()
        self.to_gen.acquire()
        if self.closing:
            raise _GenClose()

    def fresh(self):
        return self.thread is None and not self.done

    def run_inline(self, on_item):
        """Run the whole body in the caller's thread, calling on_item(value) at every yield: what CPython does when the only consumer drives the
        generator from start to end (a `for` over a generator nobody else holds, list() / sorted() / ... of it). The order of the effects of the
        generator body and of the consumer is exactly the lazy one; no thread is needed. Whatever on_item raises (break, return, an exception of
        the loop body) travels through the frames of the generator body without being catchable there, as a close() of the generator would."""
        I = self.interp
        consumer_state = (I.module, I.depth)
        self.done = True
        self.inlined = True
        self.finished_inline = False

        class Handle(object):
            closing = False

            def yield_(self, v):
                gen_state = (I.module, I.depth)
                I.module, I.depth = consumer_state
                try:
                    on_item(v)
                except _Through:
                    raise
                except BaseException as ex:
                    raise _Through(ex)
                finally:
                    I.module, I.depth = gen_state
        try:
            try:
                self.runner(Handle())
                self.finished_inline = True
            except _Through as t:
                raise t.exc
        finally:
            I.module, I.depth = consumer_state

    def drain(self):
        """Every element, for a consumer that takes them all at once."""
        if self.fresh():
            out = []
            self.run_inline(out.append)
            return out
        return list(self)

    def close(self):
        if self.thread is not None and not self.done:
            self.closing = True
            self.done = True
            self.to_gen.release()
            self.to_consumer.acquire()

    def __del__(self):
        try:
            self.close()
        except Exception:
            pass

    def __repr__(self):
        return '<generator %s>' % self.label


class OneShot(list):
    """The elements a generator / filter / map / zip object still has to deliver. The elements are computed eagerly, but the object can be
    consumed only once: iterating it (for, list(), sorted(), unpacking, `in`) empties it, as with the real lazy iterators of Python 3."""

    def take(self):
        items = list(self)
        del self[:]
        return items


class _ClassScope(dict):
    """Names visible while a class body runs: the methods and class-level assignments written above in that body (visit_While = visit_If)."""

    def __init__(self, interp, cq, node):
        dict.__init__(self)
        self._interp, self._cq, self._node = interp, cq, node

    def _find(self, name):
        for st in self._node.body:
            if isinstance(st, (ast.FunctionDef, ast.AsyncFunctionDef)) and st.name == name:
                return ('def', st)
            if isinstance(st, ast.Assign) and any(isinstance(t, ast.Name) and t.id == name for t in st.targets):
                return ('assign', st)
        return None

    def __contains__(self, name):
        return dict.__contains__(self, name) or self._find(name) is not None

    def __getitem__(self, name):
        if dict.__contains__(self, name):
            return dict.__getitem__(self, name)
        hit = self._find(name)
        if hit is None:
            raise KeyError(name)
        if hit[0] == 'def':
            return Closure(hit[1], {}, self._interp, cls=self._cq)
        found, val = self._interp._class_attr(self._cq, name)
        return val if found else TOP

    def get(self, name, default=None):
        return self[name] if name in self else default


class PyCallable(object):
    """A callable value supplied by a rule (e.g. the object a hooked constructor returns): calling it runs fn(interp, args, kwargs)."""

    def __init__(self, fn, label=''):
        self.fn = fn
        self.label = label

    def __repr__(self):
        return '<callable %s>' % self.label


class ClassRef(object):
    def __init__(self, name, qual=None):
        self.name = name
        self.qual = qual   # set for classes of the repository (their names may collide with AST class names)

    def __repr__(self):
        return 'class:' + self.name

    def __eq__(self, other):
        return isinstance(other, ClassRef) and other.name == self.name and (other.qual == self.qual or other.qual is None or self.qual is None)

    def __hash__(self):
        return hash(('ClassRef', self.name))


class Closure(object):
    def __init__(self, node, env, interp, self_obj=None, cls=None, module=None):
        self.node = node
        self.env = env
        self.self_obj = self_obj
        self.cls = cls
        # the module the code was defined in: names inside the body are resolved there
        self.module = module
        if module is None and interp is not None and interp.model is not None:
            fi = interp.model.func_of_node(node) if not isinstance(node, ast.Lambda) else None
            self.module = fi.module if fi is not None else interp.module


_MISSING = object()


class _Return(Exception):
    def __init__(self, value):
        self.value = value


class _Raise(Exception):
    def __init__(self, what):
        self.what = what


class _Exit(Exception):
    def __init__(self, code):
        self.code = code


class _Break(Exception):
    pass


class _Continue(Exception):
    pass


class _Abort(Exception):
    """Path cannot be evaluated (loop over TOP, unsupported construct)."""


CONST_KIND = {'Num': (int, float, complex), 'Str': (str,), 'Bytes': (bytes,), 'NameConstant': (bool, type(None)), 'Ellipsis': (type(Ellipsis),)}
LEGACY_NEVER = {'Exec', 'Print', 'Repr', 'TryExcept', 'TryFinally', 'Index', 'ExtSlice', 'Param', 'Suite', 'AugLoad', 'AugStore'}


def ast_isinstance(obj_cls, ref_name):
    """Is every node of AST class obj_cls an instance of the class the repo calls ast.<ref_name>?"""
    if obj_cls == ref_name:
        return True
    if ref_name in CONST_KIND or ref_name in LEGACY_NEVER:
        # ast_compat.Num/Str/...: parsed trees only ever contain Constant; legacy classes never occur on Python 3.9+
        return False
    a = getattr(ast, obj_cls, None)
    r = getattr(ast, ref_name, None)
    if isinstance(a, type) and isinstance(r, type):
        return issubclass(a, r)
    return False


class Interp(object):
    MAX_PATHS = 512

    def __init__(self, model=None, module=None, hooks=None, version=None, max_depth=40):
        self.model = model
        self.module = module
        self.hooks = hooks if hooks is not None else {}
        if model is not None:
            # the tree helpers of the standard library are part of the language level the interpreter models: always available
            from .absnodes import std_hooks
            for k, v in std_hooks().items():
                if k.startswith(('ast.', 'iter_')):
                    self.hooks.setdefault(k, v)
        self.version = tuple(version or sys.version_info[:3])
        self.events = []
        self.unknown = []
        self.decisions = []
        self.dpos = 0
        self.depth = 0
        self.max_depth = max_depth
        self.globals = {}
        self._modvars = {}
        self.intercept = {}     # qualified name of a repository function / class -> handler(interp, args, kwargs) called instead of it
        self._dyn_members = {}
        self._module_scope = {}
        self.trace = False
        self._value_hooks = any(isinstance(k, str) and k.startswith('value:') for k in self.hooks)
        self.attr_tracer = None     # callable(kind, obj, attr): 'read' / 'probe' / 'write' of attributes of descriptor objects

    # ------------------------------------------------------------------ path exploration
    current = None    # the interpreter that is evaluating right now (used by Obj.__eq__ / __hash__)

    def explore(self, thunk):
        """Run thunk() over every resolution of TOP decisions. Returns list of (outcome, events, unknown)."""
        Interp.current = self
        results = []
        pending = [[]]
        n = 0
        while pending:
            prefix = pending.pop()
            n += 1
            if n > self.MAX_PATHS:
                raise AnalysisError('abstract evaluation exceeded %d paths' % self.MAX_PATHS)
            self.decisions = list(prefix)
            self.dpos = 0
            self.events = []
            self.unknown = []
            self.forks = []
            try:
                try:
                    v = thunk()
                    out = ('return', v)
                except _Return as r:
                    out = ('return', r.value)
                except _Raise as r:
                    out = ('raise', r.what)
                except _Exit as r:
                    out = ('exit', r.code)
                except _Abort as a:
                    out = ('abort', str(a))
            except RecursionError:
                out = ('abort', 'recursion')
            results.append((out, list(self.events), list(self.unknown)))
            # schedule the alternatives of decisions taken beyond the prefix
            for i in range(len(prefix), len(self.decisions)):
                alt = self.decisions[:i] + [not self.decisions[i]]
                pending.append(alt)
        return results

    def decide(self, v, what=''):
        """Truth of v; forks when unknown."""
        if v is TOP:
            if self.dpos < len(self.decisions):
                d = self.decisions[self.dpos]
            else:
                d = True
                self.decisions.append(d)
            self.dpos += 1
            return d
        if isinstance(v, Obj):
            # instances of repository classes that define their own truth value
            if self.model is not None:
                cqs = [v.qual] if v.qual else [c for c in self._classes_named(v.cls)]
                for cq in cqs:
                    if cq in self.model.classes:
                        for special in ('__bool__', '__nonzero__', '__len__'):
                            fi = self.model.method(cq, special)
                            if fi is not None:
                                r = self.call_closure(Closure(fi.node, {}, self, self_obj=v, cls=cq), [], {})
                                if r is TOP:
                                    return self.decide(TOP, what)
                                return bool(r)
                        break
            return True
        if isinstance(v, (ClassRef, Closure)):
            return True
        return bool(v)

    # ------------------------------------------------------------------ expressions
    _dispatch = {}

    def ev(self, e, env):
        t = type(e)
        name = Interp._dispatch.get(t)
        if name is None:
            name = Interp._dispatch[t] = 'ev_' + t.__name__
        m = getattr(self, name, None)
        if m is None:
            self.unknown.append('expr ' + type(e).__name__ + ': ' + src(e)[:60])
            return TOP
        return m(e, env)

    def ev_Constant(self, e, env):
        return e.value

    def ev_Name(self, e, env):
        if e.id in env:
            return env[e.id]
        if e.id in self.globals:
            return self.globals[e.id]
        if e.id in ('True', 'False', 'None'):
            return {'True': True, 'False': False, 'None': None}[e.id]
        if e.id == 'Ellipsis':
            return Ellipsis
        if e.id in ('int', 'float', 'complex', 'str', 'bytes', 'bool', 'tuple', 'list', 'dict', 'set', 'frozenset', 'type', 'object', 'len'):
            return getattr(_b, e.id)
        if e.id in ('isinstance', 'issubclass', 'hasattr', 'getattr', 'sorted', 'min', 'max', 'any', 'all', 'repr', 'ord', 'chr', 'hex', 'reversed', 'enumerate', 'zip', 'iter', 'next') and \
                not (self.model is not None and self.module is not None and e.id in self.model.module_assigns.get(self.module, {})):
            # a builtin used as a value (handed to a helper as its test / key function): calling it runs the interpreter's own handler
            handler = getattr(self, 'builtin_' + e.id)
            return PyCallable(lambda I_, a, kw, _h=handler: _h(list(a), dict(kw), None, {}), e.id)
        if e.id == 'unicode':
            return str
        # module-level constant of the analysed module
        if self.model is not None and self.module is not None:
            v = self.model.module_assigns.get(self.module, {}).get(e.id)
            if v is not None:
                # a module-level variable is one object for the life of the process (= of this interpreter instance)
                key = (self.module, e.id)
                if key not in self._modvars:
                    try:
                        self._modvars[key] = self.ev(v, {})
                    except Exception:
                        self._modvars[key] = TOP
                return self._modvars[key]
            q = self.model.resolve_name(self.module, e.id)
            if q in self.model.classes:
                return ClassRef(q.rsplit('.', 1)[1], q if not q.startswith('python_minifier.ast_compat.') else None)
            if q in self.model.funcs:
                return Closure(self.model.funcs[q].node, {}, self)
            if q and '.' in q:
                # module-level variable imported from another package module (e.g. util.is_namespace = create_is_namespace())
                mod, _, name = q.rpartition('.')
                v = self.model.module_assigns.get(mod, {}).get(name)
                if v is not None:
                    key = (mod, name)
                    if key not in self._modvars:
                        old = self.module
                        self.module = mod
                        try:
                            self._modvars[key] = self.ev(v, {})
                        except Exception:
                            self._modvars[key] = TOP
                        finally:
                            self.module = old
                    return self._modvars[key]
        return TOP

    def ev_Tuple(self, e, env):
        return tuple(self.ev(x, env) for x in e.elts)

    def ev_List(self, e, env):
        return [self.ev(x, env) for x in e.elts]

    def ev_Set(self, e, env):
        vals = [self.ev(x, env) for x in e.elts]
        return TOP if any(v is TOP for v in vals) else set(vals)

    def ev_Dict(self, e, env):
        out = {}
        for k, v in zip(e.keys, e.values):
            kk = self.ev(k, env)
            if kk is TOP:
                return TOP
            out[kk] = self.ev(v, env)
        return out

    def ev_JoinedStr(self, e, env):
        return TOP

    def ev_Attribute(self, e, env):
        if self._value_hooks:
            # objects of the environment a rule models (sys.stdout.buffer ...): answered by the rule wherever the expression is evaluated
            root = e
            while isinstance(root, ast.Attribute):
                root = root.value
            if isinstance(root, ast.Name) and root.id not in env and root.id not in self.globals:
                h = self.hooks.get('value:' + src(e))
                if h is not None:
                    return h
        if isinstance(e.value, ast.Name):
            base = e.value.id
            if base not in env and base not in self.globals and base in PURE_MODULES and \
                    (self.model is None or self.module is None or self.model.imports.get(self.module, {}).get(base, base) == base):
                # side-effect free modules of the standard library: constants are read, functions are called on determined arguments
                try:
                    val = getattr(PURE_MODULES[base], e.attr)
                except AttributeError:
                    raise _Raise('AttributeError:' + e.attr)
                if callable(val):
                    def call(I_, a, kw, _f=val, _n=base + '.' + e.attr):
                        if any(x is TOP or isinstance(x, Obj) for x in a) or any(x is TOP or isinstance(x, Obj) for x in kw.values()):
                            return TOP
                        try:
                            return _f(*[I_.materialise(x) for x in a], **kw)
                        except Exception as ex:
                            raise _Raise(type(ex).__name__)
                    return PyCallable(call, base + '.' + e.attr)
                return val
            if base not in env:
                if self.model is not None and self.module is not None and self.model.is_ast_alias(self.module, base):
                    return ClassRef(e.attr)
                if base == 'ast':
                    return ClassRef(e.attr)
                if base == 'sys' and e.attr == 'version_info':
                    return self.version
                if base == 'sys' and e.attr == 'maxsize':
                    return sys.maxsize
                if base == 'TokenTypes' and self.model is not None:
                    tt = token_types(self.model)
                    if e.attr in tt:
                        return tt[e.attr]
        if self.model is not None and self.module is not None:
            root = e
            while isinstance(root, ast.Attribute):
                root = root.value
            if isinstance(root, ast.Name) and root.id not in env and root.id not in self.globals:
                q = self.model.resolve_expr(self.module, e)
                if q in self.model.classes:
                    return ClassRef(q.rsplit('.', 1)[1], q if not q.startswith('python_minifier.ast_compat.') else None)
                if q in self.model.funcs:
                    return Closure(self.model.funcs[q].node, {}, self)
        v = self.ev(e.value, env)
        return self.getattr(v, e.attr, e)

    def getattr(self, v, attr, e=None):
        if v is TOP:
            return TOP
        if isinstance(v, Obj):
            if attr == '__class__':
                return ClassRef(v.cls)
            if self.attr_tracer is not None:
                self.attr_tracer('read', v, attr)
            if attr in v.attrs:
                cb = v.attrs.get('__on_read__')
                if cb is not None:
                    cb(v, attr)
                return v.attrs[attr]
            if v.cls == 'Constant' and attr in ('n', 's') and 'value' in v.attrs:
                return v.attrs['value']  # ast_compat adds n/s aliases to Constant
            if attr == '_fields' and v.qual is None and getattr(ast, v.cls, None) is not None:
                return tuple(getattr(ast, v.cls)._fields)
            # members of repository classes: methods, properties, class-level attributes, members installed by factories / setattr
            m = self.member(v, attr)
            if m is not _MISSING:
                return m
            if v.closed:
                raise _Raise('AttributeError:' + attr)
            return TOP
        if isinstance(v, Closure) and attr in ('__code__', '__name__', '__doc__', '__defaults__'):
            fn = v.node
            if attr == '__name__':
                return getattr(fn, 'name', '<lambda>')
            if attr == '__doc__':
                return ast.get_docstring(fn, clean=False) if not isinstance(fn, ast.Lambda) else None
            if attr == '__code__':
                a = fn.args
                pos = [x.arg for x in a.posonlyargs + a.args]
                kwo = [x.arg for x in a.kwonlyargs]
                star = ([a.vararg.arg] if a.vararg else []) + ([a.kwarg.arg] if a.kwarg else [])
                locals_ = []
                for n_ in ast.walk(fn):
                    if isinstance(n_, ast.Name) and isinstance(n_.ctx, ast.Store) and n_.id not in pos + kwo + star + locals_:
                        locals_.append(n_.id)
                code = Obj('code', closed=True)
                code.attrs.update(co_varnames=tuple(pos + kwo + star + locals_), co_argcount=len(pos), co_kwonlyargcount=len(kwo), co_posonlyargcount=len(a.posonlyargs),
                                  co_name=getattr(fn, 'name', '<lambda>'))
                return code
            return TOP
        if isinstance(v, ClassRef):
            if attr == '__name__':
                return v.name
            if attr in ('__mro__', '__bases__'):
                # the resolution order of a repository class (from the model) or of a node class of this interpreter's grammar
                if v.qual is not None and self.model is not None and v.qual in self.model.classes:
                    chain = [ClassRef(q.rsplit('.', 1)[1], q) for q in self.model.mro(v.qual)]
                    return tuple(chain if attr == '__mro__' else chain[1:2])
                pyc = getattr(ast, v.name, None)
                if isinstance(pyc, type):
                    chain = pyc.__mro__ if attr == '__mro__' else pyc.__bases__
                    return tuple(ClassRef(c.__name__) if c.__module__ in ('ast', '_ast') else c for c in chain)
                return TOP
            if v.qual is not None and self.model is not None and v.qual in self.model.classes:
                fi = self.model.method(v.qual, attr)
                if fi is not None:
                    return Closure(fi.node, {}, self, cls=v.qual)
                found, val = self._class_attr(v.qual, attr)
                if found:
                    return val
            return TOP
        if isinstance(v, tuple) and len(v) == 3 and v[0] == 'super' and self.model is not None:
            # the search continues in the resolution order of the *instance's* class, after the class super() was asked from
            so = v[1]
            chain = self.model.mro(so.qual) if isinstance(so, Obj) and so.qual and v[2] in self.model.mro(so.qual) else self.model.mro(v[2])
            chain = chain[chain.index(v[2]):] if v[2] in chain else chain
            for k in chain:
                fi = self.model.funcs.get(k + '.' + attr)
                if fi is not None:
                    return Closure(fi.node, {}, self, self_obj=so, cls=k)
            if attr == '__init__':
                return Closure(ast.parse('lambda *a, **k: None', mode='eval').body, {}, self)  # object.__init__
            return TOP
        if isinstance(v, tuple) and attr in ('major', 'minor') and len(v) >= 2:
            return v[0] if attr == 'major' else v[1]
        if isinstance(v, type) and v in (dict, str, bytes, int, float, list, tuple, set, frozenset) and hasattr(v, attr):
            return ('pymethod', v, attr)      # dict.fromkeys, str.join, int.from_bytes ... called on determined arguments
        if isinstance(v, (str, bytes, list, dict, tuple, set, int, float, complex, re.Match, re.Pattern)) or type(v).__module__ in PURE_VALUE_MODULES:
            try:
                m = getattr(v, attr)
            except AttributeError:
                raise _Raise('AttributeError:' + attr)
            if not callable(m):
                return m        # data attributes of values: complex.real / .imag, int.numerator, match.string, pattern.pattern ...
            return ('pymethod', v, attr)
        return TOP

    def member(self, v, attr):
        """Value of attribute `attr` that instance v gets from its (repository) class, or _MISSING."""
        if self.model is None:
            return _MISSING
        for cq in ([v.qual] if v.qual else self._classes_named(v.cls)):
            if cq.rsplit('.', 1)[1] == v.cls:
                fi = self.model.method(cq, attr)
                if fi is not None:
                    is_prop = any(isinstance(d, ast.Name) and d.id == 'property' for d in fi.node.decorator_list)
                    clo = Closure(fi.node, {}, self, self_obj=v, cls=cq)
                    if is_prop:
                        return self.call_closure(clo, [], {})
                    return clo
                found, val = self._class_attr(cq, attr)
                if found:
                    if isinstance(val, Closure) and val.self_obj is None:
                        # a function stored in the class (built by a factory, or installed with setattr) is a method
                        return Closure(val.node, val.env, self, self_obj=v, cls=cq, module=val.module)
                    return val
        return _MISSING

    def _run_module_installers(self, module):
        """Top-level statements of a module that install attributes on classes (`setattr(Cls, 'visit_' + name, factory(...))`, usually in a loop)
        are executed once, so that the members they create are found by attribute lookup."""
        done = self.__dict__.setdefault('_installers_done', set())
        if module in done or self.model is None:
            return
        done.add(module)
        rel = self.model.modules.get(module)
        tree = self.model.trees.get(rel) if rel else None
        if tree is None:
            return
        old = self.module
        self.module = module
        try:
            for st in tree.body:
                if isinstance(st, (ast.For, ast.Expr, ast.If)) and any(isinstance(n, ast.Call) and isinstance(n.func, ast.Name) and n.func.id == 'setattr' for n in ast.walk(st)):
                    try:
                        self.stmt(st, self._module_scope.setdefault(module, {}))
                    except (_Raise, _Abort, _Return):
                        pass
        finally:
            self.module = old

    def _class_attr(self, cq, attr):
        """(found, value) of a class-level assignment `attr = <expr>` in the class body of cq or of one of its bases."""
        cache = self.__dict__.setdefault('_class_attrs', {})
        key = (cq, attr)
        if key in cache:
            return cache[key]
        res = (False, None)
        for k in self.model.mro(cq):
            ci = self.model.classes.get(k)
            if ci is None:
                continue
            self._run_module_installers(ci.module)
            if (k, attr) in self._dyn_members:
                res = (True, self._dyn_members[(k, attr)])
                break
            hit = None
            for st in ci.node.body:
                if isinstance(st, ast.Assign) and any(isinstance(t, ast.Name) and t.id == attr for t in st.targets):
                    hit = st.value
                elif isinstance(st, ast.AnnAssign) and isinstance(st.target, ast.Name) and st.target.id == attr and st.value is not None:
                    hit = st.value
            if hit is not None:
                old = self.module
                self.module = ci.module
                try:
                    val = self.ev(hit, _ClassScope(self, k, ci.node))
                except (_Raise, _Abort):
                    val = TOP
                finally:
                    self.module = old
                res = (True, val)
                break
        cache[key] = res
        return res

    def _classes_named(self, name):
        idx = self.model.__dict__.get('_classes_by_name')
        if idx is None:
            idx = {}
            for c in self.model.classes:
                if not c.startswith('python_minifier.ast_compat.'):
                    idx.setdefault(c.rsplit('.', 1)[1], []).append(c)
            self.model._classes_by_name = idx
        return idx.get(name, ())

    def ev_Subscript(self, e, env):
        v = self.ev(e.value, env)
        if isinstance(e.slice, ast.Slice):
            lo = self.ev(e.slice.lower, env) if e.slice.lower else None
            hi = self.ev(e.slice.upper, env) if e.slice.upper else None
            st = self.ev(e.slice.step, env) if e.slice.step else None
            if v is TOP or lo is TOP or hi is TOP or st is TOP:
                return TOP
            try:
                return v[lo:hi:st]
            except Exception:
                return TOP
        k = self.ev(e.slice, env)
        if v is TOP or k is TOP:
            return TOP
        try:
            return v[k]
        except KeyError:
            raise _Raise('KeyError:%s' % _safe_repr(k))
        except IndexError:
            raise _Raise('IndexError')
        except Exception:
            return TOP

    def ev_UnaryOp(self, e, env):
        v = self.ev(e.operand, env)
        if isinstance(e.op, ast.Not):
            if v is TOP:
                return TOP
            return not self.decide(v)
        if v is TOP:
            return TOP
        try:
            return {ast.USub: lambda x: -x, ast.UAdd: lambda x: +x, ast.Invert: lambda x: ~x}[type(e.op)](v)
        except Exception:
            return TOP

    def ev_BoolOp(self, e, env):
        is_and = isinstance(e.op, ast.And)
        last = None
        for i, x in enumerate(e.values):
            v = self.ev(x, env)
            last = v
            if i == len(e.values) - 1:
                return v
            t = self.decide(v)
            if is_and and not t:
                return v if v is not TOP else False
            if not is_and and t:
                return v if v is not TOP else True
        return last

    def ev_IfExp(self, e, env):
        t = self.decide(self.ev(e.test, env))
        return self.ev(e.body if t else e.orelse, env)

    def ev_NamedExpr(self, e, env):
        v = self.ev(e.value, env)
        env[e.target.id] = v
        return v

    _CMP = {
        ast.Eq: lambda a, b: a == b, ast.NotEq: lambda a, b: a != b, ast.Lt: lambda a, b: a < b, ast.LtE: lambda a, b: a <= b,
        ast.Gt: lambda a, b: a > b, ast.GtE: lambda a, b: a >= b,
    }

    def compare(self, op, a, b):
        if isinstance(op, (ast.Is, ast.IsNot)):
            if a is TOP or b is TOP:
                return TOP
            if isinstance(a, Obj) or isinstance(b, Obj):
                r = a is b
            elif isinstance(a, ClassRef) and isinstance(b, ClassRef):
                r = a == b
            elif a is None or b is None or isinstance(a, bool) or isinstance(b, bool) or isinstance(a, type) or isinstance(b, type):
                r = a is b
            elif type(a) is not type(b):
                r = False
            else:
                # identity of equal immutable values (small ints, interned strings) is interpreter specific: decided for True/False/None, and for
                # a string / tuple object that is the very same object on both sides (a module-level sentinel that flowed to both places)
                if a is b and isinstance(a, (bool, type(None))):
                    r = True
                elif a is b and isinstance(a, (str, tuple, bytes)) and len(a) > 1:
                    r = True
                else:
                    r = TOP if a == b else False
            if r is TOP:
                return TOP
            return r if isinstance(op, ast.Is) else (not r)
        if isinstance(op, (ast.In, ast.NotIn)):
            if b is TOP:
                return TOP
            if isinstance(b, (list, tuple, set, frozenset, dict, str, bytes, type({}.keys()), type({}.values()), type({}.items()), range)):
                if isinstance(b, (str, bytes)):
                    if a is TOP:
                        return TOP
                    try:
                        r = a in b
                    except TypeError:
                        raise _Raise('TypeError')
                else:
                    items = list(b)
                    r = False
                    unknown = False
                    for it in items:
                        if it is TOP or a is TOP:
                            unknown = True
                            continue
                        if self.py_eq(a, it):
                            r = True
                            break
                    if not r and unknown:
                        return TOP
                return r if isinstance(op, ast.In) else (not r)
            return TOP
        if a is TOP or b is TOP:
            return TOP
        if isinstance(a, Obj) or isinstance(b, Obj):
            if isinstance(op, ast.Eq):
                return a == b if isinstance(a, Obj) else b == a      # identity unless the repository class defines __eq__
            if isinstance(op, ast.NotEq):
                return not (a == b if isinstance(a, Obj) else b == a)
            return TOP
        try:
            return self._CMP[type(op)](a, b)
        except TypeError:
            raise _Raise('TypeError')

    @staticmethod
    def py_eq(a, b):
        if isinstance(a, Obj) or isinstance(b, Obj):
            return a is b or (a == b if isinstance(a, Obj) else b == a)
        try:
            return a is b or a == b
        except Exception:
            return False

    def ev_Compare(self, e, env):
        left = self.ev(e.left, env)
        for op, c in zip(e.ops, e.comparators):
            right = self.ev(c, env)
            r = self.compare(op, left, right)
            if r is TOP:
                return TOP
            if not r:
                return False
            left = right
        return True

    def ev_BinOp(self, e, env):
        a = self.ev(e.left, env)
        b = self.ev(e.right, env)
        if a is TOP or b is TOP:
            return TOP
        if isinstance(a, Obj) or isinstance(b, Obj):
            return TOP
        try:
            return {ast.Add: lambda x, y: x + y, ast.Sub: lambda x, y: x - y, ast.Mult: lambda x, y: x * y, ast.Mod: lambda x, y: x % y,
                    ast.FloorDiv: lambda x, y: x // y, ast.Div: lambda x, y: x / y}[type(e.op)](a, b)
        except KeyError:
            return TOP
        except Exception as ex:
            raise _Raise(type(ex).__name__)

    def ev_Yield(self, e, env):
        v = self.ev(e.value, env) if e.value is not None else None
        g = env.get('__gen__')
        if g is None:
            raise _Abort('yield outside an interpreted generator')
        g.yield_(v)
        return None

    def ev_YieldFrom(self, e, env):
        v = self.ev(e.value, env)
        g = env.get('__gen__')
        if g is None or v is TOP:
            raise _Abort('yield from unknown')
        if isinstance(v, LazyGen) and v.fresh():
            v.run_inline(g.yield_)
            return None
        for item in self.lazily(v):
            g.yield_(item)
        return None

    def ev_Lambda(self, e, env):
        return Closure(e, dict(env), self)

    def ev_GeneratorExp(self, e, env):
        r = self._comp(e, env, [e.elt])
        return OneShot(r) if isinstance(r, list) else r

    def ev_ListComp(self, e, env):
        return self._comp(e, env, [e.elt])

    def _comp(self, e, env, elts):
        out = []

        def rec(i, env2):
            if i == len(e.generators):
                out.append(self.ev(e.elt, env2))
                return
            g = e.generators[i]
            it = self.ev(g.iter, env2)
            if it is TOP or isinstance(it, Obj):
                raise _Abort('comprehension over unknown iterable ' + src(g.iter))
            def one(item):
                env3 = dict(env2)
                self.bind(g.target, item, env3)
                if all(self.decide(self.ev(c, env3)) for c in g.ifs):
                    rec(i + 1, env3)
            if isinstance(it, LazyGen) and it.fresh():
                it.run_inline(one)
            else:
                for item in self.iterate(it):
                    one(item)
        try:
            rec(0, dict(env))
        except _Abort:
            return TOP
        return out

    def materialise(self, v):
        if isinstance(v, LazyGen):
            return v.drain()
        if hasattr(v, '__next__') and not isinstance(v, (Obj, OneShot)) and type(v).__module__ == 'builtins':
            return list(v)
        if isinstance(v, OneShot):
            return v.take()
        return v

    def lazily(self, it):
        """A Python iterator over the elements of an interpreted iterable; generator objects are advanced one element at a time."""
        if isinstance(it, LazyGen):
            return it
        if hasattr(it, '__next__') and not isinstance(it, (Obj, OneShot)):
            return it       # an iterator object of the standard library (itertools.count(), itertools.product(...))
        if isinstance(it, OneShot):
            # a one-shot iterator is consumed element by element: a loop left with `break` leaves the rest for whoever comes next
            def popper(o=it):
                while o:
                    yield o.pop(0)
            return popper()
        return iter(self.iterate(it))

    def iterate(self, it):
        if isinstance(it, LazyGen):
            return it.drain()
        if isinstance(it, OneShot):
            return it.take()
        if isinstance(it, dict):
            return list(it.keys())
        if isinstance(it, (type({}.values()), type({}.keys()), type({}.items()))):
            return list(it)
        if isinstance(it, (list, tuple, set, str, bytes)):
            return list(it)
        if isinstance(it, range):
            return list(it)
        if hasattr(it, '__next__') and not isinstance(it, Obj):
            return list(it)        # an iterator object (of the standard library, or over a list the checker supplied): drained
        raise _Abort('iteration over %r' % (it,))

    def bind(self, target, value, env):
        if isinstance(target, ast.Name):
            env[target.id] = value
        elif isinstance(target, (ast.Tuple, ast.List)):
            if value is TOP:
                for t in target.elts:
                    self.bind(t, TOP, env)
            else:
                vals = list(value)
                for t, v in zip(target.elts, vals):
                    self.bind(t, v, env)
        elif isinstance(target, ast.Attribute):
            o = self.ev(target.value, env)
            if isinstance(o, Obj):
                if self.attr_tracer is not None:
                    self.attr_tracer('write', o, target.attr, value)
                o.attrs[target.attr] = value
                self.trace and self.events.append(('setattr', o, target.attr, value))
        elif isinstance(target, ast.Subscript) and isinstance(target.slice, ast.Slice):
            o = self.ev(target.value, env)
            if isinstance(o, list) and value is not TOP and not isinstance(value, Obj):
                lo = self.ev(target.slice.lower, env) if target.slice.lower is not None else None
                hi = self.ev(target.slice.upper, env) if target.slice.upper is not None else None
                st = self.ev(target.slice.step, env) if target.slice.step is not None else None
                if any(x is TOP or isinstance(x, Obj) for x in (lo, hi, st)):
                    raise _Abort('assignment to an undetermined slice')
                try:
                    o[slice(lo, hi, st)] = list(self.iterate(value))
                except (TypeError, ValueError) as ex:
                    raise _Raise(type(ex).__name__)
            else:
                raise _Abort('slice assignment')
        elif isinstance(target, ast.Subscript):
            o = self.ev(target.value, env)
            k = self.ev(target.slice, env)
            if isinstance(o, (list, dict)) and k is not TOP:
                try:
                    o[k] = value
                except Exception:
                    pass

    # ------------------------------------------------------------------ calls
    _ftext = {}

    def ev_Call(self, e, env):
        ftext = Interp._ftext.get(id(e))
        if ftext is None:
            ftext = src(e.func)
            Interp._ftext[id(e)] = ftext
            Interp._keep = getattr(Interp, '_keep', [])
            Interp._keep.append(e)
        args = []
        for a in e.args:
            if isinstance(a, ast.Starred):
                v = self.ev(a.value, env)
                if v is TOP:
                    args.append(TOP)
                else:
                    args.extend(list(v))
            else:
                args.append(self.ev(a, env))
        kwargs = {}
        for kw in e.keywords:
            if kw.arg:
                kwargs[kw.arg] = self.ev(kw.value, env)
            else:
                m_ = self.ev(kw.value, env)      # f(**mapping)
                if not isinstance(m_, dict) or any(not isinstance(k_, str) for k_ in m_):
                    raise _Abort('call with ** of an undetermined mapping: ' + src(kw.value))
                kwargs.update(m_)
        # rule-supplied hooks first (by callee text, then by attribute name '.name')
        h = self.hooks.get(ftext)
        if h is None and isinstance(e.func, ast.Attribute):
            h = self.hooks.get('.' + e.func.attr)
            if h is not None:
                # the receiver expression is evaluated (exactly once) before an attribute-name hook runs
                self.last_recv = self.ev(e.func.value, env)
        if h is not None:
            r = h(self, e, args, kwargs, env)
            if r is not NotImplemented:
                return r
        if ftext in ('sys.exit', 'exit', 'quit'):
            raise _Exit(args[0] if args else 0)
        if ftext in ('copy.deepcopy', 'copy.copy', 'deepcopy') and 'copy' not in env and args:
            return self.deep_copy(args[0], {}) if ftext != 'copy.copy' else self.shallow_copy(args[0])
        if ftext.startswith('re.') and ftext[3:] in ('compile', 'match', 'search', 'fullmatch', 'sub', 'subn', 'split', 'findall', 'escape') and 're' not in env:
            # the regular expression engine of the standard library, on determined arguments only
            if any(a is TOP or isinstance(a, Obj) for a in args) or any(v is TOP or isinstance(v, Obj) for v in kwargs.values()):
                return TOP
            try:
                return getattr(re, ftext[3:])(*args, **kwargs)
            except Exception as ex:
                raise _Raise(type(ex).__name__)
        if isinstance(e.func, ast.Name):
            name = e.func.id
            if name in env and isinstance(env[name], Closure):
                return self.call_closure(env[name], args, kwargs)
            b = getattr(self, 'builtin_' + name, None)
            if b is not None and name not in env:
                return b(args, kwargs, e, env)
            fv = self.ev_Name(e.func, env)
            if isinstance(fv, Closure):
                return self.call_closure(fv, args, kwargs)
            if isinstance(fv, ClassRef):
                return self.construct(fv, args, kwargs)
            if isinstance(fv, Obj):
                call = self.getattr(fv, '__call__')
                if isinstance(call, Closure):
                    return self.call_closure(call, args, kwargs)
            if isinstance(fv, PyCallable):
                return fv.fn(self, args, kwargs)
            if isinstance(fv, tuple) and len(fv) == 3 and fv[0] == 'pymethod':
                return self._call_pymethod(fv, args, kwargs)
            if fv in (int, float, complex, str, bytes, bool, tuple, list, dict, set, frozenset):
                if any(a is TOP or isinstance(a, Obj) for a in args) and fv is not dict:
                    return TOP
                if fv is dict and any(a is TOP for a in args):
                    return TOP
                try:
                    return fv(*[self.materialise(a) for a in args], **kwargs)
                except Exception as ex:
                    raise _Raise(type(ex).__name__)
            if fv is type and len(args) == 1:
                return self.typeof(args[0])
            self.unknown.append('call ' + ftext)
            return TOP
        fv = self.ev(e.func, env)
        if isinstance(fv, PyCallable):
            return fv.fn(self, args, kwargs)
        if isinstance(fv, Closure):
            return self.call_closure(fv, args, kwargs)
        if isinstance(fv, ClassRef):
            return self.construct(fv, args, kwargs)
        if isinstance(fv, Obj):
            call = self.getattr(fv, '__call__')
            if isinstance(call, Closure):
                return self.call_closure(call, args, kwargs)
        if isinstance(fv, tuple) and len(fv) == 3 and fv[0] == 'pymethod':
            return self._call_pymethod(fv, args, kwargs)
        if fv is not TOP and callable(fv) and fv in (int, float, complex, str, bytes, bool):
            return TOP
        self.unknown.append('call ' + ftext)
        return TOP

    def _call_pymethod(self, fv, args, kwargs):
        """A bound method of a value of the interpreter's own types (list.append, set.add, str.join ...), possibly stored in a variable first."""
        _, recv, attr = fv
        if self.attr_tracer is not None and attr in ('append', 'add', 'insert', 'extend', 'update', 'setdefault', '__setitem__') and isinstance(recv, (list, set, dict)):
            self.attr_tracer('mutate', recv, attr)
        if attr in ('append', 'add', 'insert', 'extend') and isinstance(recv, (list, set)) and any(a is TOP or isinstance(a, Obj) for a in args):
            try:
                getattr(recv, attr)(*args)
            except TypeError:
                return TOP
            return None
        if any(a is TOP for a in args):
            return TOP
        if any(isinstance(a, Obj) for a in args):
            if attr in ('append', 'extend', 'insert', 'add'):
                getattr(recv, attr)(*args)
                return None
            if isinstance(recv, (dict, set)) and attr in ('get', 'setdefault', 'pop', 'discard', 'remove', '__contains__', '__getitem__', '__setitem__') or \
                    isinstance(recv, (list, tuple)) and attr in ('index', 'count', 'remove', '__contains__'):
                # look-ups with objects as keys / elements: their __eq__ / __hash__ are the repository's (see Obj)
                try:
                    return getattr(recv, attr)(*args)
                except Exception as ex:
                    raise _Raise(type(ex).__name__)
            return TOP
        try:
            return getattr(recv, attr)(*args, **kwargs)
        except Exception as ex:
            raise _Raise(type(ex).__name__)

    def typeof(self, v):
        if v is TOP:
            return TOP
        if isinstance(v, Obj):
            return ClassRef(v.cls)
        return type(v)

    def construct(self, cref, args, kwargs):
        """Instantiate an abstract object; AST classes take their fields positionally."""
        if cref.qual is not None and cref.qual in self.intercept:
            return self.intercept[cref.qual](self, list(args), dict(kwargs))
        if cref.qual is not None and self.model is not None and cref.qual in self.model.classes:
            o = Obj(cref.name)
            o.qual = cref.qual
            self.trace and self.events.append(('new', o))
            init = self.model.method(cref.qual, '__init__')
            if init is not None:
                owner = [k for k in self.model.mro(cref.qual) if self.model.funcs.get(k + '.__init__') is init][0]
                self.call_closure(Closure(init.node, {}, self, self_obj=o, cls=owner), list(args), dict(kwargs))
            return o
        if cref.name in CONST_KIND:
            # ast_compat.Num / Str / Bytes / NameConstant / Ellipsis all build a Constant
            if cref.name == 'Ellipsis':
                val = Ellipsis
            else:
                val = args[0] if args else kwargs.get('value', kwargs.get('n', kwargs.get('s', TOP)))
            o = Obj('Constant', value=val, kind=None)
            self.trace and self.events.append(('new', o))
            return o
        if self.model is not None and getattr(ast, cref.name, None) is None:
            cqs = [cq for cq in self.model.classes if cq.rsplit('.', 1)[1] == cref.name]
            if len(cqs) == 1:
                o = Obj(cref.name)
                o.qual = cqs[0]
                self.trace and self.events.append(('new', o))
                init = self.model.method(cqs[0], '__init__')
                if init is not None:
                    owner = [k for k in self.model.mro(cqs[0]) if self.model.funcs.get(k + '.__init__') is init][0]
                    self.call_closure(Closure(init.node, {}, self, self_obj=o, cls=owner), list(args), dict(kwargs))
                return o
        fields = getattr(getattr(ast, cref.name, None), '_fields', None)
        attrs = dict(kwargs)
        if fields:
            for f, a in zip(fields, args):
                attrs[f] = a
        o = Obj(cref.name, **attrs)
        self.trace and self.events.append(('new', o))
        return o

    def call_closure(self, clo, args, kwargs):
        node = clo.node
        if self.intercept and self.model is not None and not isinstance(node, ast.Lambda):
            fi_ = self.model.func_of_node(node)
            if fi_ is not None and fi_.qual in self.intercept and clo.self_obj is None:
                return self.intercept[fi_.qual](self, list(args), dict(kwargs))
        if self.depth > self.max_depth:
            raise _Abort('call depth')
        a = node.args
        pos = [x.arg for x in getattr(a, 'posonlyargs', []) + a.args]
        env = dict(clo.env)
        vals = list(args)
        is_static = not isinstance(node, ast.Lambda) and any(isinstance(d, ast.Name) and d.id == 'staticmethod' for d in node.decorator_list)
        if clo.self_obj is not None and not is_static:
            vals = [clo.self_obj] + vals
        defaults = dict(zip(pos[len(pos) - len(a.defaults):], a.defaults))
        for i, p in enumerate(pos):
            if i < len(vals):
                env[p] = vals[i]
            elif p in kwargs:
                env[p] = kwargs[p]
            elif p in defaults:
                env[p] = self.default_value(clo, defaults[p])
            else:
                env[p] = TOP
        if a.vararg:
            env[a.vararg.arg] = tuple(vals[len(pos):])
        for p, d in zip(a.kwonlyargs, a.kw_defaults):
            env[p.arg] = kwargs[p.arg] if p.arg in kwargs else (self.default_value(clo, d) if d is not None else TOP)
        if a.kwarg:
            env[a.kwarg.arg] = {k: v for k, v in kwargs.items() if k not in pos}
        env['__class_ctx__'] = clo.cls
        self.depth += 1
        old_module = self.module
        if clo.module is not None:
            self.module = clo.module
        try:
            if isinstance(node, ast.Lambda):
                return self.ev(node.body, env)
            if _is_generator(node):
                gen_module = self.module
                gen_depth = self.depth

                def runner(g, _env=env, _node=node):
                    _env['__gen__'] = g
                    self.module, self.depth = gen_module, gen_depth
                    try:
                        self.block(_node.body, _env)
                    except _Return:
                        pass
                return LazyGen(self, runner, getattr(node, 'name', 'lambda'))
            env['__gen__'] = None
            try:
                self.block(node.body, env)
            except _Return as r:
                return r.value
            return None
        finally:
            self.depth -= 1
            self.module = old_module

    def shallow_copy(self, v):
        if isinstance(v, Obj):
            o = Obj(v.cls, closed=v.closed)
            o.qual = v.qual
            o.attrs = dict(v.attrs)
            return o
        if isinstance(v, (list, dict, set)):
            return type(v)(v)
        return v

    def deep_copy(self, v, memo):
        """copy.deepcopy over descriptor graphs (cycles through parent / namespace links are followed with a memo, as the real one does)."""
        if v is TOP or isinstance(v, (str, bytes, int, float, complex, bool, type(None), type(Ellipsis), ClassRef, Closure)):
            return v
        k = id(v)
        if k in memo:
            return memo[k]
        if isinstance(v, Obj):
            o = Obj(v.cls, closed=v.closed)
            o.qual = v.qual
            memo[k] = o
            for a, x in v.attrs.items():
                o.attrs[a] = x if a in ('_real', '__on_read__') else self.deep_copy(x, memo)
            return o
        if isinstance(v, list):
            out = type(v)() if type(v) is not list else []
            memo[k] = out
            out.extend(self.deep_copy(x, memo) for x in v)
            return out
        if isinstance(v, tuple):
            return tuple(self.deep_copy(x, memo) for x in v)
        if isinstance(v, set):
            return set(self.deep_copy(x, memo) for x in v)
        if isinstance(v, dict):
            out = {}
            memo[k] = out
            for a, x in v.items():
                out[self.deep_copy(a, memo)] = self.deep_copy(x, memo)
            return out
        return v

    def default_value(self, clo, d):
        """Default expressions are evaluated once, when the function is defined: a mutable default is one object shared by every call
        (for the lifetime of this interpreter instance, which stands for one process)."""
        cache = self.__dict__.setdefault('_default_values', {})
        key = (id(d), id(clo.env) if clo.env else 0)
        if key not in cache:
            if not hasattr(self, '_default_keep'):
                self._default_keep = []
            self._default_keep.append((d, clo.env))
            old_module = self.module
            if getattr(clo, 'module', None):
                self.module = clo.module
            try:
                cache[key] = self.ev(d, clo.env)
            finally:
                self.module = old_module
        return cache[key]

    def call_method(self, cls_qual, name, self_obj, args, kwargs=None):
        fi = self.model.method(cls_qual, name)
        if fi is None:
            from .model import LostAnchor
            raise LostAnchor('anchor method %s.%s not found' % (cls_qual, name))
        return self.call_closure(Closure(fi.node, {}, self, self_obj=self_obj, cls=cls_qual), list(args), kwargs or {})

    def call_function(self, qual, args, kwargs=None):
        fi = self.model.func(qual)
        old = self.module
        self.module = fi.module
        try:
            return self.call_closure(Closure(fi.node, {}, self), list(args), kwargs or {})
        finally:
            self.module = old

    # ---- builtins understood by the interpreter
    def builtin_isinstance(self, args, kwargs, e, env):
        v, c = args
        if v is TOP or c is TOP:
            return TOP
        cs = c if isinstance(c, tuple) else (c,)
        if any(x is TOP for x in cs):
            return TOP
        for k in cs:
            if isinstance(k, ClassRef):
                if isinstance(v, Obj) and v.qual is not None:
                    if k.qual is not None and k.qual in self.model.mro(v.qual):
                        return True
                    if k.qual is None and any(q.rsplit('.', 1)[1] == k.name for q in self.model.mro(v.qual)) and getattr(ast, k.name, None) is None:
                        return True
                elif isinstance(v, Obj) and k.qual is None and (ast_isinstance(v.cls, k.name) or self.repo_isinstance(v.cls, k.name)):
                    return True
                elif isinstance(v, Obj) and k.qual is not None and self.repo_isinstance(v.cls, k.name):
                    return True
            elif isinstance(k, type):
                if not isinstance(v, (Obj, ClassRef, Closure)) and isinstance(v, k):
                    return True
        return False

    def repo_isinstance(self, obj_cls, ref):
        if self.model is None:
            return False
        cache = self.model.__dict__.setdefault('_repo_isinstance_cache', {})
        key = (obj_cls, ref)
        if key not in cache:
            cache[key] = False
            for cq in self.model.classes:
                if cq.rsplit('.', 1)[1] == obj_cls:
                    cache[key] = any(k.rsplit('.', 1)[1] == ref for k in self.model.mro(cq))
                    break
        return cache[key]

    def builtin_vars(self, args, kwargs, e, env):
        if len(args) != 1 or args[0] is TOP:
            return TOP
        o = args[0]
        if isinstance(o, Obj):
            return {k: v for k, v in o.attrs.items() if not k.startswith('__on_')}
        if hasattr(o, '__dict__') and type(o).__module__ in ('argparse', 'types'):
            return dict(vars(o))          # an argparse.Namespace of the modelled command line
        return TOP

    def builtin_issubclass(self, args, kwargs, e, env):
        c, k = args
        if c is TOP or k is TOP:
            return TOP
        ks = k if isinstance(k, tuple) else (k,)
        if any(x is TOP for x in ks):
            return TOP

        def chain(x):
            if isinstance(x, ClassRef):
                if x.qual is not None and self.model is not None and x.qual in self.model.classes:
                    return [ClassRef(q.rsplit('.', 1)[1], q) for q in self.model.mro(x.qual)]
                pyc = getattr(ast, x.name, None)
                if isinstance(pyc, type):
                    return [ClassRef(c_.__name__) if c_.__module__ in ('ast', '_ast') else c_ for c_ in pyc.__mro__]
                if self.model is not None and ('python_minifier.ast_compat.' + x.name) in self.model.classes:
                    return [x] + [ClassRef(q.rsplit('.', 1)[1]) for q in self.model.mro('python_minifier.ast_compat.' + x.name)[1:]] + [ClassRef('AST'), object]
                return None
            if isinstance(x, type):
                return list(x.__mro__)
            return None
        mro = chain(c)
        if mro is None:
            return TOP
        for x in ks:
            for m in mro:
                if (isinstance(x, ClassRef) and isinstance(m, ClassRef) and x == m) or (isinstance(x, type) and x is m):
                    return True
        return False

    def builtin_len(self, args, kwargs, e, env):
        v = args[0]
        if v is TOP or isinstance(v, Obj):
            return TOP
        try:
            return len(v)
        except TypeError:
            raise _Raise('TypeError')

    def builtin_hasattr(self, args, kwargs, e, env):
        o, name = args
        a0 = e.args[0] if e is not None and getattr(e, 'args', None) else None
        if isinstance(a0, ast.Name) and a0.id not in env and isinstance(name, str) and \
                (a0.id == 'ast' or (self.model is not None and self.module is not None and self.model.is_ast_alias(self.module, a0.id))):
            # hasattr(ast, 'ClassName'): the node classes of this interpreter plus the compatibility classes of the package
            return hasattr(ast, name) or (self.model is not None and ('python_minifier.ast_compat.' + name) in self.model.classes)
        if isinstance(a0, ast.Name) and a0.id not in env and a0.id in ('os', 'sys', 'io', 're', 'tokenize', 'itertools', 'functools', 'collections', 'keyword', 'string', 'math') and isinstance(name, str) and \
                (self.model is None or self.module is None or self.model.imports.get(self.module, {}).get(a0.id, a0.id) == a0.id):
            # feature test on a module of the standard library: answered for the interpreter the check runs on
            return hasattr(__import__(a0.id), name)
        if o is TOP or name is TOP:
            return TOP
        if isinstance(o, Obj):
            if self.attr_tracer is not None and isinstance(name, str):
                self.attr_tracer('probe', o, name)
            if name in o.attrs:
                return True
            if isinstance(name, str) and self.model is not None and (o.qual is not None or bool(self._classes_named(o.cls))):
                # an instance of a repository class has its instance attributes (known) and the members of its class: nothing else
                return self.member(o, name) is not _MISSING
            fields = getattr(getattr(ast, o.cls, None), '_fields', None)
            if fields is not None:
                return name in fields
            return False if o.closed else TOP
        return hasattr(o, name)

    def builtin_getattr(self, args, kwargs, e, env):
        a0 = e.args[0] if e is not None and getattr(e, 'args', None) else None
        if isinstance(a0, ast.Name) and a0.id not in env and len(args) >= 2 and isinstance(args[1], str) and \
                (a0.id == 'ast' or (self.model is not None and self.module is not None and self.model.is_ast_alias(self.module, a0.id))):
            # getattr(ast, 'ClassName'[, default]): the node classes of this interpreter plus the compatibility classes of the package
            known = hasattr(ast, args[1]) or (self.model is not None and ('python_minifier.ast_compat.' + args[1]) in self.model.classes)
            if known:
                return ClassRef(args[1])
            if len(args) == 3:
                return args[2]
            raise _Raise('AttributeError:' + args[1])
        if len(args) >= 2 and isinstance(args[0], Obj) and isinstance(args[1], str):
            o, name = args[0], args[1]
            if self.attr_tracer is not None:
                self.attr_tracer('read', o, name)
            if name in o.attrs:
                return o.attrs[name]
            is_repo = self.model is not None and (o.qual is not None or bool(self._classes_named(o.cls)))
            if is_repo:
                m = self.member(o, name)
                if m is not _MISSING:
                    return m
                if len(args) == 3:
                    return args[2]
                raise _Raise('AttributeError:' + name)
            fields = getattr(getattr(ast, o.cls, None), '_fields', None)
            if fields is not None and name not in fields and len(args) == 3:
                return args[2]
            if o.closed:
                if len(args) == 3:
                    return args[2]
                raise _Raise('AttributeError:' + name)
        if len(args) >= 2 and isinstance(args[1], str) and isinstance(args[0], (str, bytes, list, dict, tuple, set, int, float, complex, OneShot)):
            if hasattr(args[0], args[1]) and not (isinstance(args[0], OneShot) and args[1] == 'take'):
                return self.getattr(args[0], args[1])
            if len(args) == 3:
                return args[2]
            raise _Raise('AttributeError:' + args[1])
        return TOP

    def builtin_setattr(self, args, kwargs, e, env):
        o, name, value = args
        if isinstance(o, Obj) and isinstance(name, str):
            if self.attr_tracer is not None:
                self.attr_tracer('write', o, name, value)
            o.attrs[name] = value
            return None
        if isinstance(o, ClassRef) and o.qual is not None and isinstance(name, str):
            self._dyn_members[(o.qual, name)] = value
            self.__dict__.get('_class_attrs', {}).pop((o.qual, name), None)
            return None
        return TOP

    def builtin_format(self, args, kwargs, e, env):
        if kwargs or any(a is TOP or isinstance(a, Obj) for a in args):
            return TOP
        try:
            return format(*args)
        except Exception as ex:
            raise _Raise(type(ex).__name__)

    def builtin_hash(self, args, kwargs, e, env):
        v = args[0]
        if v is TOP:
            return TOP
        try:
            return hash(v)     # Obj delegates to the class's own __hash__ when there is one
        except TypeError:
            raise _Raise('TypeError')

    def builtin_object(self, args, kwargs, e, env):
        return Obj('object', closed=True)

    def builtin_delattr(self, args, kwargs, e, env):
        o, name = args
        if isinstance(o, Obj) and isinstance(name, str):
            o.attrs.pop(name, None)
            return None
        return TOP

    def builtin_min(self, args, kwargs, e, env):
        v = self.materialise(args[0]) if len(args) == 1 else list(args)
        if v is TOP or any(x is TOP for x in v):
            return TOP
        v = list(self.iterate(v))
        if set(kwargs) - {'key'}:
            return TOP
        if 'key' in kwargs:
            k = kwargs['key']
            if k is len:
                keys = [len(x) for x in v]
            elif isinstance(k, Closure):
                keys = [self.call_closure(k, [x], {}) for x in v]
            else:
                return TOP
            if any(x is TOP for x in keys):
                return TOP
            if not v:
                raise _Raise('ValueError')
            return v[keys.index(min(keys))]
        if not v:
            raise _Raise('ValueError')
        return min(v)

    def builtin_max(self, args, kwargs, e, env):
        v = self.materialise(args[0]) if len(args) == 1 else list(args)
        if v is TOP or any(x is TOP for x in v):
            return TOP
        if kwargs:
            k = kwargs.get('key')
            if set(kwargs) - {'key'} or not (k is len or isinstance(k, Closure)):
                return TOP
            v = list(self.iterate(v))
            keys = [len(x) if k is len else self.call_closure(k, [x], {}) for x in v]
            if any(x is TOP for x in keys):
                return TOP
            if not v:
                raise _Raise('ValueError')
            return v[keys.index(max(keys))]
        try:
            return max(v)
        except ValueError:
            raise _Raise('ValueError')
        except TypeError:
            return TOP

    def builtin_any(self, args, kwargs, e, env):
        v = self.materialise(args[0])
        if v is TOP:
            return TOP
        unknown = False
        for x in v:
            if x is TOP:
                unknown = True
            elif self.decide(x):
                return True
        return TOP if unknown else False

    def builtin_all(self, args, kwargs, e, env):
        v = self.materialise(args[0])
        if v is TOP:
            return TOP
        unknown = False
        for x in v:
            if x is TOP:
                unknown = True
            elif not self.decide(x):
                return False
        return TOP if unknown else True

    def builtin_repr(self, args, kwargs, e, env):
        v = args[0]
        if v is TOP or isinstance(v, Obj):
            return TOP
        try:
            return repr(v)
        except Exception as ex:
            raise _Raise(type(ex).__name__)

    def builtin_ascii(self, args, kwargs, e, env):
        v = args[0]
        if v is TOP or isinstance(v, Obj):
            return TOP
        return ascii(v)

    def builtin_type(self, args, kwargs, e, env):
        return self.typeof(args[0]) if len(args) == 1 else TOP

    def builtin_filter(self, args, kwargs, e, env):
        f, it = args
        if it is TOP:
            return TOP
        out = []
        for x in self.iterate(it):
            v = self.call_closure(f, [x], {}) if isinstance(f, Closure) else (x if f is None else TOP)
            if self.decide(v):
                out.append(x)
        return OneShot(out) if self.version >= (3,) else out

    def builtin_map(self, args, kwargs, e, env):
        if len(args) != 2 or kwargs:
            return TOP
        f, it = args[0], args[1]
        a0 = e.args[0] if e is not None and getattr(e, 'args', None) else None
        if it is not TOP and not isinstance(it, Obj) and isinstance(a0, ast.Name) and a0.id not in env and a0.id in ('chr', 'ord', 'str', 'int', 'float', 'bool', 'len', 'repr', 'abs', 'hex', 'bin', 'oct', 'bytes'):
            items = self.iterate(it)
            if any(x is TOP or isinstance(x, Obj) for x in items):
                return TOP
            try:
                r = [getattr(_b, a0.id)(x) for x in items]
            except Exception as ex:
                raise _Raise(type(ex).__name__)
            return OneShot(r) if self.version >= (3,) else r
        if it is TOP or not isinstance(f, Closure):
            return TOP
        r = [self.call_closure(f, [x], {}) for x in self.iterate(it)]
        return OneShot(r) if self.version >= (3,) else r

    def builtin_list(self, args, kwargs, e, env):
        if not args:
            return []
        if args[0] is TOP or isinstance(args[0], Obj):
            return TOP
        return list(self.iterate(args[0]))

    def builtin_zip(self, args, kwargs, e, env):
        if kwargs or any(a is TOP or isinstance(a, Obj) for a in args):
            return TOP
        # generator arguments are advanced only as far as zip advances them (it stops at the shortest argument: an endless generator is fine)
        finite = [(i, self.iterate(a)) for i, a in enumerate(args) if not isinstance(a, LazyGen)]
        if finite and any(isinstance(a, LazyGen) for a in args):
            n = min(len(v) for _i, v in finite)
            first_short = min(i for i, v in finite if len(v) == n)
            cols = {i: v for i, v in finite}
            for i, a in enumerate(args):
                if isinstance(a, LazyGen):
                    # zip asks argument i for element k before it finds a later argument exhausted: one more element when it comes first
                    cols[i] = self._take(a, n + 1 if i < first_short else n)
            m = min(len(cols[i]) for i in range(len(args)))
            r = [tuple(cols[i][k] for i in range(len(args))) for k in range(m)]
            return OneShot(r) if self.version >= (3,) else r
        r = list(zip(*[(self.lazily(a) if isinstance(a, LazyGen) else self.iterate(a)) for a in args]))
        return OneShot(r) if self.version >= (3,) else r

    def _take(self, gen, k):
        """The first k elements of a generator (fewer if it ends), advancing it exactly that far; a fresh generator is run in place."""
        out = []
        if k <= 0:
            return out
        if gen.fresh():
            class _Enough(BaseException):
                pass

            def on_item(v):
                out.append(v)
                if len(out) >= k:
                    raise _Enough()
            try:
                gen.run_inline(on_item)
            except _Enough:
                pass
            return out
        for v in gen:
            out.append(v)
            if len(out) >= k:
                break
        return out

    def builtin_next(self, args, kwargs, e, env):
        it = args[0]
        if it is TOP or isinstance(it, Obj):
            return TOP
        try:
            if isinstance(it, OneShot):
                if not it:
                    raise StopIteration
                return it.pop(0)
            return next(it)
        except StopIteration:
            if len(args) > 1:
                return args[1]
            raise _Raise('StopIteration')
        except TypeError:
            raise _Raise('TypeError')

    def builtin_iter(self, args, kwargs, e, env):
        it = args[0]
        if it is TOP or isinstance(it, Obj):
            return TOP
        if isinstance(it, (LazyGen, OneShot)):
            return it
        return OneShot(self.iterate(it))

    def builtin_enumerate(self, args, kwargs, e, env):
        if args[0] is TOP:
            return TOP
        start = kwargs.get('start', args[1] if len(args) > 1 else 0)
        if not isinstance(start, int) or set(kwargs) - {'start'} or len(args) > 2:
            raise _Abort('enumerate() with undetermined arguments')
        return list(enumerate(self.iterate(args[0]), start))

    def builtin_reversed(self, args, kwargs, e, env):
        if args[0] is TOP or isinstance(args[0], Obj):
            return TOP
        r = list(reversed(self.iterate(args[0])))
        return OneShot(r) if self.version >= (3,) else r

    def builtin_range(self, args, kwargs, e, env):
        if any(a is TOP for a in args):
            return TOP
        return list(range(*args))

    def builtin_sorted(self, args, kwargs, e, env):
        if args[0] is TOP or isinstance(args[0], Obj) or set(kwargs) - {'key', 'reverse'}:
            return TOP
        items = list(self.iterate(args[0]))
        rev = kwargs.get('reverse', False)
        if rev is TOP:
            return TOP
        k = kwargs.get('key')
        if k is None:
            keys = items
        elif k is len:
            keys = [len(x) for x in items]
        elif isinstance(k, (Closure, PyCallable)):
            keys = [self.call_closure(k, [x], {}) if isinstance(k, Closure) else k.fn(self, [x], {}) for x in items]
        else:
            return TOP
        if any(x is TOP or isinstance(x, Obj) for x in keys):
            return TOP
        try:
            order = sorted(range(len(items)), key=lambda i_: keys[i_], reverse=bool(rev))   # stable, like the real one
        except TypeError:
            raise _Raise('TypeError')
        return [items[i_] for i_ in order]

    def builtin_hex(self, args, kwargs, e, env):
        return TOP if args[0] is TOP else hex(args[0])

    def builtin_str(self, args, kwargs, e, env):
        if not args:
            return ''
        v = args[0]
        if v is TOP:
            return TOP
        if isinstance(v, Obj):
            m = self.getattr(v, '__str__')
            if isinstance(m, Closure):
                return self.call_closure(m, [], {})
            return TOP
        if len(args) > 1 or kwargs:
            if any(a is TOP or isinstance(a, Obj) for a in args) or any(a is TOP or isinstance(a, Obj) for a in kwargs.values()):
                return TOP
        try:
            return str(*args, **kwargs)
        except Exception as ex:
            raise _Raise(type(ex).__name__)

    def builtin_ord(self, args, kwargs, e, env):
        return TOP if args[0] is TOP else ord(args[0])

    def builtin_chr(self, args, kwargs, e, env):
        return TOP if args[0] is TOP else chr(args[0])

    def builtin_super(self, args, kwargs, e, env):
        so = env.get('self')
        cur = env.get('__class_ctx__')
        if isinstance(so, Obj) and so.qual and cur and self.model is not None:
            mro = self.model.mro(so.qual)
            if cur in mro and mro.index(cur) + 1 < len(mro):
                return ('super', so, mro[mro.index(cur) + 1])
        if isinstance(so, Obj) and cur and self.model is not None:
            mro = self.model.mro(cur)
            if len(mro) > 1:
                return ('super', so, mro[1])
        return TOP

    # ------------------------------------------------------------------ statements
    def block(self, stmts, env):
        for s in stmts:
            self.stmt(s, env)

    def stmt(self, s, env):
        if isinstance(s, ast.Expr):
            self.ev(s.value, env)
        elif isinstance(s, ast.Assign):
            v = self.ev(s.value, env)
            for t in s.targets:
                self.bind(t, v, env)
        elif isinstance(s, ast.AugAssign):
            cur = self.ev(ast.BinOp(left=_load(s.target), op=s.op, right=s.value), env)
            self.bind(s.target, cur, env)
        elif isinstance(s, ast.Return):
            raise _Return(self.ev(s.value, env) if s.value is not None else None)
        elif isinstance(s, ast.If):
            t = self.decide(self.ev(s.test, env))
            self.block(s.body if t else s.orelse, env)
        elif isinstance(s, ast.Assert):
            v = self.ev(s.test, env)
            if v is not TOP and not self.decide(v):
                raise _Raise('AssertionError')
        elif isinstance(s, ast.Raise):
            raise _Raise(src(s.exc) if s.exc is not None else 're-raise')
        elif isinstance(s, ast.Pass):
            pass
        elif isinstance(s, (ast.FunctionDef, ast.AsyncFunctionDef)):
            env[s.name] = Closure(s, env, self)
        elif isinstance(s, ast.For):
            it = self.ev(s.iter, env)
            if it is TOP or isinstance(it, Obj):
                raise _Abort('loop over unknown iterable ' + src(s.iter))
            broke = False
            if isinstance(it, LazyGen) and it.fresh() and isinstance(s.iter, ast.Call):
                # the generator object is a temporary of this loop: its body is run in place, the loop body at every yield
                def on_item(item, _s=s, _env=env):
                    self.bind(_s.target, item, _env)
                    try:
                        self.block(_s.body, _env)
                    except _Continue:
                        pass
                try:
                    it.run_inline(on_item)
                except _Break:
                    broke = True
                it = ()
            for item in self.lazily(it):
                self.bind(s.target, item, env)
                try:
                    self.block(s.body, env)
                except _Break:
                    broke = True     # a generator left by `break` stays suspended and can be resumed later
                    break
                except _Continue:
                    continue
            if not broke:
                self.block(s.orelse, env)
        elif isinstance(s, ast.While):
            n = 0
            while self.decide(self.ev(s.test, env)):
                n += 1
                if n > 200000:
                    raise _Abort('while loop bound')
                try:
                    self.block(s.body, env)
                except _Break:
                    break
                except _Continue:
                    continue
        elif isinstance(s, ast.Break):
            raise _Break()
        elif isinstance(s, ast.Continue):
            raise _Continue()
        elif isinstance(s, ast.Try):
            try:
                self.block(s.body, env)
            except _Raise as r:
                handled = False
                for h in s.handlers:
                    ht = src(h.type) if h.type is not None else 'BaseException'
                    names = [ht] if not isinstance(h.type, ast.Tuple) else [src(x) for x in h.type.elts]
                    what = r.what.split(':')[0].split('(')[0]
                    if any(n in ('Exception', 'BaseException') or n == what for n in names):
                        handled = True
                        self.block(h.body, env)
                        break
                if not handled:
                    raise
            else:
                self.block(s.orelse, env)
            finally:
                if s.finalbody:
                    self.block(s.finalbody, env)
        elif isinstance(s, ast.With):
            managers = []
            for it in s.items:
                v = self.ev(it.context_expr, env)
                entered = v
                if isinstance(v, Obj) and self.model is not None:
                    en = self.getattr(v, '__enter__')
                    if isinstance(en, Closure):
                        entered = self.call_closure(en, [], {})
                        managers.append(v)
                if it.optional_vars is not None:
                    self.bind(it.optional_vars, entered, env)
            self.block(s.body, env)
            for v in reversed(managers):
                ex = self.getattr(v, '__exit__')
                if isinstance(ex, Closure):
                    self.call_closure(ex, [None, None, None], {})
        elif isinstance(s, (ast.Import, ast.ImportFrom, ast.Global, ast.Nonlocal)):
            pass
        elif isinstance(s, ast.Delete):
            for t in s.targets:
                if isinstance(t, ast.Name):
                    env.pop(t.id, None)
                elif isinstance(t, ast.Attribute):
                    o = self.ev(t.value, env)
                    if isinstance(o, Obj):
                        if t.attr not in o.attrs:
                            raise _Raise('AttributeError:' + t.attr)
                        del o.attrs[t.attr]
                    else:
                        raise _Abort('del of an attribute of ' + src(t.value))
                elif isinstance(t, ast.Subscript):
                    o = self.ev(t.value, env)
                    if not isinstance(o, (list, dict)):
                        raise _Abort('del of an element of ' + src(t.value))
                    if isinstance(t.slice, ast.Slice):
                        lo = self.ev(t.slice.lower, env) if t.slice.lower is not None else None
                        hi = self.ev(t.slice.upper, env) if t.slice.upper is not None else None
                        st = self.ev(t.slice.step, env) if t.slice.step is not None else None
                        if any(x is TOP for x in (lo, hi, st)):
                            raise _Abort('del of an undetermined slice')
                        del o[slice(lo, hi, st)]
                    else:
                        k = self.ev(t.slice, env)
                        if k is TOP:
                            raise _Abort('del of an undetermined element')
                        try:
                            del o[k]
                        except (KeyError, IndexError) as ex:
                            raise _Raise(type(ex).__name__)
                else:
                    raise _Abort('del target ' + type(t).__name__)
        else:
            raise _Abort('statement ' + type(s).__name__)


def _is_generator(fnode):
    r = getattr(fnode, '_pm_is_generator', None)
    if r is None:
        from .model import walk_own
        r = any(isinstance(n, (ast.Yield, ast.YieldFrom)) for n in walk_own(fnode))
        fnode._pm_is_generator = r
    return r


def _load(t):
    import copy
    t2 = copy.deepcopy(t)
    for n in ast.walk(t2):
        if hasattr(n, 'ctx'):
            n.ctx = ast.Load()
    return t2


def token_types(model, _cache={}):
    key = model.digest()
    if key not in _cache:
        ci = model.classes.get('python_minifier.token_printer.TokenTypes')
        out = {}
        if ci is not None:
            for n in ci.node.body:
                if isinstance(n, ast.Assign) and isinstance(n.targets[0], ast.Name) and isinstance(n.value, ast.Constant):
                    out[n.targets[0].id] = n.value.value
        _cache[key] = out
    return _cache[key]
