"""Command line: ./check <Cxx> [--tier quick|thorough] [--repo DIR] [--no-write]

exit 0  every structural obligation of the property is discharged (or is a listed known finding)
exit 1  VIOLATION property=<id> replay=<path>   (one line per unlisted violation, followed by a diagnosable line)
exit 2  ANALYSIS-ERROR (anchor vanished, rule below its floor, undecided predicate, internal error) - never a verdict
"""
import argparse
import importlib
import os
import sys
import traceback

from .model import AnalysisError, Model
from .report import Report, finish

PROPS = ['C%02d' % i for i in range(1, 18)]


def run_property(prop, tier='quick', root=None, overlay=None, write=True, quiet=False, model=None):
    root = root
    mod = importlib.import_module('pmstatic.props.' + prop.lower())
    rep = Report(prop, tier)
    m = model or Model(root=root, overlay=overlay)
    rep.count('units', len(m.units()))
    rep.count('functions_in_package', len(m.funcs))
    rep.count('classes_in_package', len(m.classes))
    rep.count('tree_digest', m.digest())
    mod.run(m, rep)
    if tier == 'thorough' and hasattr(mod, 'thorough'):
        mod.thorough(m, rep)
    rep.check_floors()
    if tier == 'thorough' and overlay is None and not os.environ.get('PMSTATIC_NO_BATTERY'):
        sensitivity(prop, rep, root)
    return rep


def sensitivity(prop, rep, root):
    """Thorough tier: the property's battery of variants (in-memory overlays) must be detected / stay silent."""
    from . import selftest
    res = selftest.run(prop, root)
    lost = []
    for (kind, p, name, status, detail, dt) in res:
        rule = prop + '.SENS'
        where = 'pmstatic/battery.py'
        if status == 'skipped':
            rep.note('battery variant %r no longer applies to this tree' % name)
            continue
        good = status in ('ok', 'other-rule') or (kind == 'fire' and status == 'analysis-error')
        if good:
            rep.ok(rule, where, '%s variant: %s' % ('must-fire' if kind == 'fire' else 'must-stay-silent', name), detail[:160], key='%s|%s|%s' % (rule, kind, name), trivial=True)
        else:
            lost.append('%s %r: %s %s' % (kind, name, status, detail[:120]))
    rep.rule(prop + '.SENS', 'every must-fire variant of the battery is reported, every must-stay-silent variant is not')
    if lost:
        raise AnalysisError('the checker lost sensitivity/specificity on %d battery variants: %s' % (len(lost), '; '.join(lost[:3])))


def main(argv=None):
    ap = argparse.ArgumentParser(prog='check')
    ap.add_argument('prop')
    ap.add_argument('--tier', default=os.environ.get('VERIF_TIER', 'quick'), choices=['quick', 'thorough'])
    ap.add_argument('--repo', default=None)
    ap.add_argument('--no-write', action='store_true')
    ap.add_argument('--only-key', default=None, help='replay: print only the obligation with this key')
    ap.add_argument('--replay', default=None, help='replay file written by an earlier run')
    ap.add_argument('--list', action='store_true', help='list all obligations')
    args = ap.parse_args(argv)
    prop = args.prop.upper()
    if prop not in PROPS:
        print('ANALYSIS-ERROR unknown property %s' % prop)
        return 2
    seed = int(os.environ.get('VERIF_SEED', '0') or 0)
    try:
        rep = run_property(prop, args.tier, root=args.repo, write=not args.no_write)
        only = args.only_key
        if args.replay:
            import json
            with open(args.replay) as f:
                only = json.load(f)['obligation']['key']
        if only or args.list:
            for o in rep.obligations:
                if args.list or o.key == only:
                    print('%-10s %-12s %-45s %s -- %s' % (o.status, o.rule, o.where, o.construct[:90], o.detail[:200]))
            if only:
                hit = [o for o in rep.obligations if o.key == only]
                if not hit:
                    print('obligation with key %r no longer exists on this tree' % only)
                    return 0
                return 1 if any(o.status == 'violated' for o in hit) else 0
        return finish(rep, seed=seed, write=not args.no_write)
    except AnalysisError as e:
        print('ANALYSIS-ERROR property=%s %s' % (prop, e))
        return 2
    except Exception:
        print('ANALYSIS-ERROR property=%s internal error in the analyser:' % prop)
        traceback.print_exc(file=sys.stdout)
        return 2


if __name__ == '__main__':
    from . import fatstack
    sys.exit(fatstack.run(main))
