#!/usr/bin/env python3
"""Confirm a seeded breaking change and run the checks against it.

usage: tools/seed_eval.py <seed id> <property id> <dir containing patch.diff and demo.py> [--needs "..."] [--desc "..."]

Steps (all recorded in /verif/seeded/<seed id>/meta.json):
 1. copy patch.diff / demo.py into /verif/seeded/<seed id>/
 2. in a fresh scratch worktree of /repo (under /tmp, removed afterwards): demo passes without the patch; with the patch the
    package imports, `pytest test` is unchanged and the demo fails
 3. run every check (quick) against that worktree with the patch applied (./check Cxx --repo <worktree>)
"""
import json
import os
import re
import shutil
import subprocess
import sys
import tempfile

VERIF = os.path.dirname(os.path.dirname(os.path.abspath(__file__)))
PY = '/venv/bin/python'


def sh(cmd, cwd=None, env=None, timeout=1800):
    e = dict(os.environ)
    e.update(env or {})
    p = subprocess.run(cmd, shell=True, cwd=cwd, env=e, stdout=subprocess.PIPE, stderr=subprocess.STDOUT, text=True, timeout=timeout)
    return p.returncode, p.stdout


def main():
    args = sys.argv[1:]
    seed, prop, src = args[0], args[1].upper(), args[2]
    opts = dict(zip(args[3::2], args[4::2]))
    dest = os.path.join(VERIF, 'seeded', seed)
    os.makedirs(dest, exist_ok=True)
    for f in ('patch.diff', 'demo.py'):
        if os.path.abspath(os.path.join(src, f)) != os.path.abspath(os.path.join(dest, f)):
            shutil.copy(os.path.join(src, f), os.path.join(dest, f))
    patch = os.path.join(dest, 'patch.diff')
    if os.path.exists(os.path.join(dest, 'patch_rebased.diff')):
        # the same change re-based on a later HEAD of /repo (a fix: commit touched the lines the original patch was written against)
        patch = os.path.join(dest, 'patch_rebased.diff')
    meta = {'seed': seed, 'property': prop, 'description': opts.get('--desc', ''), 'needs_to_manifest': opts.get('--needs', ''), 'ran': []}
    # the demo refers to its worktree path: rewrite to the scratch worktree for confirmation
    demo_text = open(os.path.join(dest, 'demo.py')).read()
    wt = tempfile.mkdtemp(prefix='pm_seed_', dir='/tmp')
    os.rmdir(wt)
    rc, out = sh('git -C /repo worktree add -q %s HEAD' % wt)
    try:
        env = {'PYTHONPATH': os.path.join(wt, 'src')}
        demo = os.path.join(wt, 'demo.py')
        with open(demo, 'w') as f:
            f.write(re.sub(r'/tmp/wt[2-9]?_c\d+[a-z]', wt, demo_text))
        rc0, out0 = sh('%s %s' % (PY, demo), cwd=wt, env=env)
        meta['ran'].append({'cmd': 'demo.py on the unchanged tree', 'exit': rc0, 'tail': out0[-300:]})
        rc, out = sh('git -C %s apply %s' % (wt, patch))
        meta['ran'].append({'cmd': 'git apply patch.diff', 'exit': rc, 'tail': out[-300:]})
        applied = rc == 0
        rci, outi = sh('%s -c "import python_minifier, python_minifier.__main__"' % PY, cwd=wt, env=env)
        meta['ran'].append({'cmd': 'import python_minifier with the patch', 'exit': rci, 'tail': outi[-200:]})
        rct, outt = sh('%s -m pytest -q -p no:cacheprovider test' % PY, cwd=wt, env=env)
        tail = outt.strip().splitlines()[-1] if outt.strip() else ''
        meta['ran'].append({'cmd': 'pytest test with the patch', 'exit': rct, 'tail': tail})
        rc1, out1 = sh('%s %s' % (PY, demo), cwd=wt, env=env)
        meta['ran'].append({'cmd': 'demo.py with the patch', 'exit': rc1, 'tail': out1[-400:]})
        meta['confirmed'] = bool(applied and rc0 == 0 and rci == 0 and rct == 0 and '358 passed' in tail and rc1 != 0)
        # run every check against the scratch worktree with the patch applied (equivalent to `git -C /repo apply`, but /repo stays untouched
        # and several seeds can be evaluated at the same time)
        caught = {}
        if applied:
            props = ['C%02d' % i for i in range(1, 18)]
            if opts.get('--checks'):
                props = [c for c in opts['--checks'].split(',') if c]      # a re-evaluation restricted to some checks (recorded in meta)
                meta['checks_run'] = props
            for p in props:
                rc_, o = sh('./check %s --no-write --repo %s' % (p, wt), cwd=VERIF)
                lines = [l for l in o.splitlines() if l.startswith('VIOLATION') or l.startswith('ANALYSIS-ERROR')]
                detail = [l.strip()[:260] for l in o.splitlines() if l.startswith('  ') and 'note:' not in l][:3]
                if rc_ != 0:
                    caught[p] = {'exit': rc_, 'lines': lines[:3], 'detail': detail}
    finally:
        sh('git -C /repo worktree remove --force %s' % wt)
    meta['checks_reporting'] = caught
    meta['caught_by_own_property_check'] = prop in caught and caught[prop]['exit'] == 1
    meta['caught_by_any_check'] = any(v['exit'] == 1 for v in caught.values())
    with open(os.path.join(dest, 'meta.json'), 'w') as f:
        json.dump(meta, f, indent=1)
    print(json.dumps({k: meta[k] for k in ('seed', 'property', 'confirmed', 'caught_by_own_property_check', 'caught_by_any_check')}, indent=1))
    for p, v in caught.items():
        print(p, v['exit'], (v['detail'] or v['lines'])[:1])


if __name__ == '__main__':
    main()
