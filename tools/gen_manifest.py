#!/usr/bin/env python3
"""Regenerates /verif/MANIFEST.json from the table below (one place to keep level texts in sync with DESIGN.md)."""
import importlib
import json
import os
import sys

HERE = os.path.dirname(os.path.dirname(os.path.abspath(__file__)))
sys.path.insert(0, HERE)

TEXT = {
    'C01': ('safe-option identity (docs index = signature defaults = CLI defaults), the fixed order of the pipeline, and producer-before-reader typestate of '
            'every tree annotation, decided from the source of minify(); observable equivalence of the two programs is NOT decided',
            'table agreement (docs/signature), dominance over path facts, effect summaries over the call graph'),
    'C02': ('every (printer slot, child class) pair of the ASDL is enumerated: the printer methods are abstractly interpreted on class descriptors and must '
            'parenthesise wherever CPython\'s own parser (probed with generated text) requires it; handler/dispatch exhaustiveness, precedence-table order '
            'isomorphism with the parser, token-separation table vs tokenizer probes, statement layout; spelling of literal values is NOT decided',
            'finite-domain enumeration by abstract interpretation of the printer + parser/tokenizer probe oracles + exhaustiveness over the ASDL'),
    'C03': ('binding-form exhaustiveness over ASDL identifier fields, agreement of binder/renamer/printer fields, namespace of every syntactic slot vs symtable '
            'probes, reservation-walk invariant, guards of the name-assignment loop, filtered name stream; the reservation algorithm itself is NOT decided',
            'exhaustiveness + sibling agreement + symtable probe oracle + path facts'),
    'C04': ('who-may-write rule on identifier fields, pins on all paths that hand out a binding, abstract enumeration of arg_rename_in_place over argument '
            'shapes, global gate and underscore prefix; leakage through data rather than a missing gate is NOT decided',
            'ownership rule over stores, path facts, finite enumeration by abstract interpretation'),
    'C05': ('every tree-rewriting stage is gated by its own option, rewrite sites carry their side-condition facts, statement lists are routed and never '
            'emptied, scope-classification predicates enumerated over nesting shapes; bisimilarity of compiled code is NOT decided',
            'path facts at effect sites + effect summaries + ASDL exhaustiveness + abstract enumeration'),
    'C06': ('insertion point guards, type-aware key, value-node identity, exclusion sites, placement namespaces, candidate kinds; alias uniqueness is NOT decided',
            'path facts, provenance of constructed nodes, abstract enumeration of insert() over suite shapes'),
    'C07': ('the single replacement site carries all eight guard facts, strict type test enumerated over exemplar value pairs, broad handlers around both '
            'evaluations; numeric equality for all operands is delegated to the run-time comparison whose presence and strictness are decided',
            'path facts at the replacement site + abstract enumeration of equal_value_and_type'),
    'C08': ('handler and dispatch exhaustiveness over the ASDL, SyntaxError pass-through, error discipline at fallible evaluation sites, int-to-decimal '
            'hazard; absence of implicit exceptions in general is NOT decided',
            'exhaustiveness over the ASDL + path facts (try coverage) + the C02 enumeration re-reported'),
    'C09': ('trigger table vs builtins, and under the hypothesis "module tainted" no name-changing stage is reachable with permission; taint writes are '
            'monotone and reads are dominated by resolution',
            'path facts under hypothesis + effect summaries + table agreement'),
    'C10': ('wiring of both preserve lists to their three consumers, normalisation arms, membership implies pin, reserved globals, __all__ feeding, '
            'AWS entrypoint wiring; "nothing else changes" is NOT decided',
            'def-use provenance of call arguments + path facts'),
    'C11': ('no in-place mutation of any caller argument (followed through callee summaries), no write to module/class level state from reachable code, '
            'set-typed values consumed only order-insensitively, no nondeterminism source reachable; true thread interleavings beyond absence of shared writable '
            'state are NOT decided',
            'effect (purity) summaries over the receiver-sensitive call graph'),
    'C12': ('inventory and reachability of every dynamic-execution sink, provenance idiom per sink (quote + escaped text + quote; literal-only operands; empty '
            'namespaces), escape tables cover quote and backslash, no I/O outside the CLI module; correctness of escaping for every string is NOT decided',
            'who-may-call rule + provenance dataflow to each sink + escape-table check'),
    'C13': ('flag -> dest -> keyword chain followed statically, an argparse parser rebuilt from the extracted specs is probed for defaults / single flags / '
            'pairs, forwarding completeness, list splitting, validation block enumerated by abstract interpretation, payload provenance at every write, '
            'documented flags exist',
            'table agreement via rebuilt-parser probes + def-use flow + abstract enumeration of the validation block'),
    'C14': ('every value do_minify returns is dominated by the byte-length comparison against the source (or the documented override), operands are bytes, '
            'every write sink writes either that result or the bytes read, the override is the only environment read',
            'path facts (dominating comparison) + payload provenance at write sinks'),
    'C15': ('suffix test on every path yielded from a directory walk, who-may-open-for-write rule, destination opened only after minification of that file '
            'completed, no swallowing handler; atomicity of the final write is NOT decided',
            'path facts + ordering (dominance) + ownership of write targets'),
    'C16': ('source reaches the interpreter\'s parser untouched, binary reads and strict UTF-8 encode in the CLI, shebang arms agree and are gated, every '
            'decode of input-derived bytes is total or uses the declared encoding, literals spelled through repr; meaning preservation per codec is NOT decided',
            'provenance flow + sibling agreement of the two shebang arms + path facts'),
    'C17': ('the three constant-kind classifiers agree on exemplar values of every type, renames and folds happen only under the profitability fact with the '
            'comparison in the right direction, bindings processed by descending mention count; aggregate accuracy of the cost model on real code is NOT decided',
            'abstract enumeration of the classifiers + path facts at rename/fold sites'),
}

DESIGN_REF = {p: 'DESIGN.md section 4, ' + p for p in TEXT}

NOTE = ('Trusted base: CPython\'s ast/tokenize/symtable/argparse as reference tables; the analyser itself (pmstatic); hand-written probe templates and the '
        'classification of ASDL identifier fields. A pass means every structural obligation (a necessary condition of the property) is discharged on the '
        'current tree - not that the behavioural property is proved. Reference grammar is the interpreter running the check (CPython 3.12).')


def main():
    built = []
    not_built = []
    for p in sorted(TEXT):
        try:
            importlib.import_module('pmstatic.props.' + p.lower())
            built.append(p)
        except ImportError:
            not_built.append(p)
    checks = []
    for p in built:
        text, tech = TEXT[p]
        checks.append({
            'property_id': p,
            'quick_cmd': './check %s --tier quick' % p,
            'thorough_cmd': './check %s --tier thorough' % p,
            'evidence_file': 'evidence/%s.json' % p,
            'replay_cmd_template': './check %s --replay {path}' % p,
            'engine': 'pmstatic',
            'level_claimed': {'category': 'other', 'text': 'static analysis of structural necessary conditions: ' + text, 'design_ref': DESIGN_REF[p]},
            'level_note': NOTE,
            'technique': 'static analysis: ' + tech,
        })
    man = {
        'version': 1,
        'setup_cmd': 'cd /verif && (/venv/bin/python -m compileall -q pmstatic || python3 -m compileall -q pmstatic)',
        'hooks': {
            'guard': 'DFLOOK_PYTHON_MINIFIER_VERIF',
            'enable': 'none needed: the checks read the source tree of /repo and never build, import or run it',
            'baseline_off_cmd': 'cd /repo && /venv/bin/python -m pytest -ra -q -p no:cacheprovider --timeout=900 --continue-on-collection-errors',
            'source_commits': [],
            'add_only': True,
        },
        'engines': [{'name': 'pmstatic', 'path': 'pmstatic/', 'serves_properties': built,
                     'kind_free_text': 'repository-specific static analyser: source model + receiver-sensitive call graph + path-fact (must) analysis + effect summaries '
                                       '+ abstract interpreter over AST-class descriptors + interpreter-derived oracles (ASDL, parser, tokenizer, symtable, argparse probes)'}],
        'checks': checks,
        'not_applicable': [{'property_id': p, 'reason': 'check not built yet in this session (static rules are specified in DESIGN.md section 4)'} for p in not_built],
        'notes': 'All checks are static: they parse /repo/src/python_minifier on every run and never import or execute it. Exit 0 = obligations discharged / known finding, '
                 '1 = VIOLATION, 2 = ANALYSIS-ERROR (no verdict). See DESIGN.md.',
    }
    with open(os.path.join(HERE, 'MANIFEST.json'), 'w') as f:
        json.dump(man, f, indent=1)
        f.write('\n')
    print('MANIFEST.json: %d checks, %d not built' % (len(checks), len(not_built)))


if __name__ == '__main__':
    main()
