#!/usr/bin/env python3
"""Regenerates /verif/MANIFEST.json from the table below (one place to keep level texts in sync with DESIGN.md)."""
import importlib
import json
import os
import sys

HERE = os.path.dirname(os.path.dirname(os.path.abspath(__file__)))
sys.path.insert(0, HERE)

TEXT = {
    'C01': ('safe-option identity (docs index = signature defaults = CLI defaults), the fixed order of the pipeline, and producer-before-reader typestate of '
            'every tree annotation, decided from the source of minify(); observable equivalence of the two programs is NOT decided',
            'table agreement (docs/signature), dominance over path facts, effect summaries over the call graph'),
    'C02': ('every (printer slot, child class) cell of the ASDL, statement layouts, token adjacencies, literal spellings and match patterns are enumerated: the '
            'printer classes are run by the abstract interpreter on descriptor trees of probe programs and the text must parse back (CPython parser as '
            'oracle) to the identical tree; handler/dispatch exhaustiveness over the ASDL; literal values beyond the systematic grids are NOT decided',
            'finite-domain enumeration by abstract interpretation of the printer + parser oracle + exhaustiveness over the ASDL'),
    'C03': ('namespace of every syntactic slot and the binding scope of every name (mapper, binder, resolver run abstractly on probe programs) vs symtable; every '
            'binding form bound, renamed, costed and printed from the same field (the printer is run on renamed probes); reservation discipline of the '
            'assignment loop; filtered name stream; the reservation algorithm beyond its invariants is NOT decided',
            'abstract interpretation of mapper/binder/resolver/printer on probe programs + symtable oracle + path facts'),
    'C04': ('Binding.rename evaluated on a reference node of every ASDL class with an identifier field: external fields unchanged, keyword-callable parameters keep '
            'their spelling; pins on all paths that hand out a binding (enumerated); arg_rename_in_place over 1240 argument shapes; the name-assignment loop '
            'evaluated on 48 scenarios: underscore prefix exactly under prefix_globals; who-may-write rule on identifier fields; leakage through data is NOT decided',
            'abstract interpretation of the renamer over enumerated reference kinds and scenarios + ownership rule over stores'),
    'C05': ('minify() itself is evaluated with every stage replaced by a recorder: each rewriting stage runs exactly under its own option; every transformer is '
            'abstractly run on enumerated statement lists / test shapes / nesting shapes and must remove exactly the documented construct; unconditional stages '
            'are annotation-only (effect summaries); bisimilarity of compiled code is NOT decided',
            'abstract interpretation of the driver and of each transformer over finite syntactic domains + effect summaries + ASDL exhaustiveness'),
    'C06': ('insertion point guards, type-aware key, value-node identity, exclusion sites, placement namespaces, candidate kinds; alias uniqueness is NOT decided',
            'path facts, provenance of constructed nodes, abstract enumeration of insert() over suite shapes'),
    'C07': ('the folding transform is run abstractly on every operand-kind pair x operator and on nested forms, the folded module is printed by the repository\'s '
            'printer (abstractly) and parsed back: identical type/value/exception, strictly shorter, integer division and failing evaluations left alone; '
            'equal_value_and_type enumerated over exemplar pairs; operand values beyond the enumerated kinds are NOT decided',
            'finite-domain enumeration by abstract interpretation of the transform and the printer, evaluated against the interpreter\'s own arithmetic on literal-only trees'),
    'C08': ('handler and dispatch exhaustiveness over the ASDL, SyntaxError pass-through, error discipline at fallible evaluation sites (f-string candidates by path '
            'facts, folding by enumeration of failing arithmetic), reduced printer cells incl. huge integers; absence of implicit exceptions in general is NOT decided',
            'exhaustiveness over the ASDL + path facts (try coverage) + the C02/C07 enumerations re-reported'),
    'C09': ('trigger positions (whole bind+resolve run on probe programs), and under the hypothesis "module tainted" no name-changing stage is reachable with '
            'permission; gates evaluated with the switch off; taint writes monotone, reads dominated by resolution',
            'abstract interpretation on probe programs + path facts under hypothesis + effect summaries'),
    'C10': ('minify() evaluated with recorders: the three consumers receive the caller\'s names (None / str / list / tuple spellings) plus the binder-preserved names, '
            'the caller\'s list is untouched; membership implies pin (gates evaluated); reserved globals; __all__ forms; AWS entrypoint; "nothing else changes" is NOT decided',
            'abstract interpretation of the driver and the gates over enumerated argument spellings + path facts'),
    'C11': ('no in-place mutation of any caller argument (followed through callee summaries), no write to module/class level state from reachable code, '
            'set-typed values consumed only order-insensitively, no nondeterminism source reachable; true thread interleavings beyond absence of shared writable '
            'state are NOT decided',
            'effect (purity) summaries over the receiver-sensitive call graph'),
    'C12': ('inventory and reachability of every dynamic-execution sink; what reaches each eval() is decided by running the quoting classes on crafted strings and the '
            'folding transform on arithmetic over every operand kind (only closed literal text may arrive); wrapper passes fresh empty namespaces; no I/O outside the '
            'CLI module; dynamic attribute names derive from literals / class names / field names; escaping for every string is NOT decided',
            'who-may-call rule + abstract interpretation of the code in front of each sink on crafted inputs + derivation dataflow for dynamic attribute names'),
    'C13': ('main() evaluated end to end in a modelled environment (real argparse driven by the repository\'s calls; file system, stdio, environment and minify() answered '
            'by the checker): flags -> keyword arguments (none, each alone, annotation vectors, list spellings; thorough: all pairs), 112 validation shapes, output '
            'modes x per-source answers: payloads, channels, listing; documented flags exist; flag subsets larger than pairs are NOT decided',
            'abstract interpretation of the entry point over enumerated scenarios, compared with the documented behaviour'),
    'C14': ('main() evaluated end to end over output modes x answers that are shorter / longer / longer only in bytes / equal, mixed along the file list, with and without '
            'the override, plus 42 boundary length cases: every destination receives at most len(source) bytes; only environment read is the override',
            'abstract interpretation of the entry point over enumerated scenarios + syntactic scan for environment reads'),
    'C15': ('main() evaluated end to end on a modelled directory tree (python and near-miss suffixes, nested and symlinked directories): selection, destinations, binary '
            'channels, destination opened only after minify() returned, failing / unreadable file or unlistable directory ends the run and later files are untouched; '
            'no other file-system mutation in the package; atomicity of the final write is NOT decided',
            'abstract interpretation of the entry point over enumerated scenarios + syntactic scan for file-system mutators'),
    'C16': ('source reaches the interpreter\'s parser untouched (API by provenance, CLI by end-to-end evaluation on BOM / CR / cookie / undecodable sources), strict UTF-8 '
            'of what is written, shebang finder evaluated on 16 source shapes for text and bytes, literal emitters evaluated on crafted values, every decode of '
            'input-derived bytes total or declared; meaning preservation per codec is NOT decided',
            'provenance flow + abstract interpretation of the shebang finder, the literal emitters and the entry point on crafted inputs'),
    'C17': ('the three constant-kind classifiers agree on exemplar values of every type; the name-assignment loop evaluated on 48 scenarios renames exactly under the '
            'profitability answer (or when the original name was given away); cost comparisons point the right way; folds kept only where the printed text gets '
            'strictly shorter (enumerated with C07); descending mention order; aggregate accuracy of the cost model on real code is NOT decided',
            'abstract enumeration of classifiers, assignment loop and folding + comparison-direction analysis'),
}

DESIGN_REF = {p: 'DESIGN.md section 4, ' + p for p in TEXT}

NOTE = ('Trusted base: CPython\'s ast/tokenize/symtable/argparse as reference tables; the analyser itself (pmstatic); hand-written probe templates and the '
        'classification of ASDL identifier fields. A pass means every structural obligation (a necessary condition of the property) is discharged on the '
        'current tree - not that the behavioural property is proved. Reference grammar is the interpreter running the check (CPython 3.12).')


def main():
    built = []
    not_built = []
    for p in sorted(TEXT):
        try:
            importlib.import_module('pmstatic.props.' + p.lower())
            built.append(p)
        except ImportError:
            not_built.append(p)
    checks = []
    for p in built:
        text, tech = TEXT[p]
        checks.append({
            'property_id': p,
            'quick_cmd': './check %s --tier quick' % p,
            'thorough_cmd': './check %s --tier thorough' % p,
            'evidence_file': 'evidence/%s.json' % p,
            'replay_cmd_template': './check %s --replay {path}' % p,
            'engine': 'pmstatic',
            'level_claimed': {'category': 'other', 'text': 'static analysis of structural necessary conditions: ' + text, 'design_ref': DESIGN_REF[p]},
            'level_note': NOTE,
            'technique': 'static analysis: ' + tech,
        })
    man = {
        'version': 1,
        'setup_cmd': 'cd /verif && (/venv/bin/python -m compileall -q pmstatic || python3 -m compileall -q pmstatic)',
        'hooks': {
            'guard': 'DFLOOK_PYTHON_MINIFIER_VERIF',
            'enable': 'none needed: the checks read the source tree of /repo and never build, import or run it',
            'baseline_off_cmd': 'cd /repo && /venv/bin/python -m pytest -ra -q -p no:cacheprovider --timeout=900 --continue-on-collection-errors',
            'source_commits': [],
            'add_only': True,
        },
        'engines': [{'name': 'pmstatic', 'path': 'pmstatic/', 'serves_properties': built,
                     'kind_free_text': 'repository-specific static analyser: source model + receiver-sensitive call graph + path-fact (must) analysis + effect summaries '
                                       '+ abstract interpreter over AST-class descriptors, probe programs and modelled environments (CLI, API driver) + interpreter-derived oracles (ASDL, parser, tokenizer, symtable, argparse)'}],
        'checks': checks,
        'not_applicable': [{'property_id': p, 'reason': 'check not built yet in this session (static rules are specified in DESIGN.md section 4)'} for p in not_built],
        'notes': 'All checks are static: they parse /repo/src/python_minifier on every run and never import or execute it. Exit 0 = obligations discharged / known finding, '
                 '1 = VIOLATION, 2 = ANALYSIS-ERROR (no verdict). See DESIGN.md.',
    }
    with open(os.path.join(HERE, 'MANIFEST.json'), 'w') as f:
        json.dump(man, f, indent=1)
        f.write('\n')
    print('MANIFEST.json: %d checks, %d not built' % (len(checks), len(not_built)))


if __name__ == '__main__':
    main()
