#!/usr/bin/env python3
"""Regenerates /verif/MANIFEST.json from the table below (one place to keep level texts in sync with DESIGN.md)."""
import importlib
import json
import os
import sys

HERE = os.path.dirname(os.path.dirname(os.path.abspath(__file__)))
sys.path.insert(0, HERE)

E2E = ("the real minify() evaluated by the checker's abstract interpreter on probe modules - nothing of the package replaced, the module handed to the printer "
       "captured and, where names matter, printed by the repository's own printer (also evaluated)")

TEXT = {
    'C01': (E2E + ' with the default options in four configurations (transforms only / + renaming / + hoisting / everything): the result equals the composition of the '
            'documented rewrites (reference implementations in the checker), is alpha-equivalent to it (scopes from symtable), de-hoists to it, and compiles; the pipeline '
            'typestate observed on a staged real run (no stage consults a tree annotation before the stage that populates it); safe options = documented defaults; '
            'self-check of unparse(); observable equivalence of two running programs in general is NOT decided',
            'abstract interpretation of the whole pipeline on probe programs against reference rewrites and oracles built on ast / symtable / compile, plus table agreement (docs / signature)'),
    'C02': ('every (printer slot, child class) cell of the ASDL, statement layouts, token adjacencies, literal spellings (incl. equal-valued literals of different type '
            'next to each other) and match patterns are enumerated: the printer classes are run by the abstract interpreter on descriptor trees of probe programs and '
            'the text must parse back (CPython parser as oracle) to the identical tree; handler/dispatch exhaustiveness over the ASDL; literal values beyond the '
            'systematic grids are NOT decided',
            'finite-domain enumeration by abstract interpretation of the printer + parser oracle + exhaustiveness over the ASDL'),
    'C03': (E2E + ' with the renaming options: every binding form of the grammar (exhaustive over the ASDL identifier fields), scope-heavy probes, names bound nowhere that '
            'look like generated names, idioms with one name in several scopes - same structure, consistent new names, no two bindings of one name meet, no free '
            'reference captured, no reference left unbound (symtable as oracle); name-reuse probes (declarations naming several names, globals the module never binds, class bodies '
            'that read before binding, non-simple annotated targets, parameters spelled like generated names, nested assignment expressions) judged by a resolution oracle: every '
            'identifier occurrence resolves, through the symbol tables, to the counterpart of the binding it resolved to and bindings neither split nor merge. White-box (optional): namespace of every syntactic slot and binding scope of every name '
            'vs symtable, reservation worlds, the generated name stream; the reservation algorithm on arbitrary programs is NOT decided',
            'abstract interpretation of the whole pipeline on probe programs + alpha-equivalence / capture oracle on symtable; abstract interpretation of mapper, binder, resolver, assigner on synthetic worlds'),
    'C04': (E2E + ' with both renaming options: class attributes, system names, names bound nowhere, roots of dotted imports, lambda parameters, super keep their spelling; '
            'every function kind x signature shape: keyword-callable parameters keep their spelling in the signature; names the hoister adds at module level carry the '
            'underscore; who-may-write rule on ASDL identifier fields. White-box (optional): pins inspected on bindings, forced renames per parameter kind, the assignment '
            'loop on 64 scenarios; leakage through data is NOT decided',
            'abstract interpretation of the whole pipeline on probe programs + ownership rule over stores + abstract interpretation of the renamer on enumerated worlds'),
    'C05': (E2E + ' with every option off (tree unchanged) and with exactly one option on: the result equals that option\'s documented rewrite, implemented independently in the '
            'checker - statement filters in every kind of statement list of the grammar, __debug__ tests, docstrings vs __doc__, exception brackets for every builtin name, '
            'annotation removal by option set x scope kind x nesting, return None, object bases, import merging, positional-only markers; stage gating by recorders; '
            'unconditional stages annotation-only; bisimilarity of compiled code in general is NOT decided',
            'abstract interpretation of the whole pipeline on probe programs against reference rewrites + effect summaries'),
    'C06': (E2E + ' with only hoist_literals on, then de-hoisted by the checker: putting the aliased constants back gives the original program; each alias assigned once, at the top of a '
            'function / module body that encloses every use (defaults and decorators belong to the enclosing scope), resolves to the alias at every use, module-level aliases '
            'start with an underscore; __slots__, match patterns, f-string text, docstrings untouched. White-box (optional): insert() positions, key equality, collector '
            'exclusions, placement on scope trees; alias uniqueness in general is NOT decided',
            'abstract interpretation of the whole pipeline on probe programs + de-hoisting oracle; abstract enumeration of the hoister\'s helpers'),
    'C07': ('the real minify() with only constant_folding on, evaluated on every operand-kind pair x operator (17 operand kinds incl. complex) and on nested / chained / '
            'free-operand forms; the folded module is printed by the repository\'s printer and parsed back: identical type, value (incl. signed zeros) or exception, '
            'strictly shorter; operand values beyond the enumerated kinds are NOT decided',
            'finite-domain enumeration by abstract interpretation of the pipeline and the printer, judged by the interpreter\'s own arithmetic on literal-only trees'),
    'C08': ('handler and dispatch exhaustiveness over the ASDL, SyntaxError pass-through (driver evaluated with a failing parse), folding of failing arithmetic by enumeration, '
            'printer cells (parenthesisation-sensitive slots, statement pairs in function bodies and nested blocks, literals incl. huge integers, patterns) print without '
            'error and re-parse; absence of implicit exceptions in general is NOT decided',
            'exhaustiveness over the ASDL + abstract interpretation of driver, folder and printer over enumerated cells'),
    'C09': (E2E + ' with renaming and hoisting requested on modules with a dynamic-name trigger in 20 positions (incl. nested classes that bind the trigger\'s name): the output is '
            'identical to the one with those options off; controls without a trigger are renamed; driver evaluated with recorders for a tainted module: gates receive False, no '
            'bracket removal; taint writes monotone. White-box (optional): the taint flag after bind + resolve; the gates on a scope tree',
            'abstract interpretation of the whole pipeline on probe programs + abstract interpretation of the driver with recorders'),
    'C10': (E2E + ' with preserve lists and literal __all__ in every statement form: the listed names keep their spelling, everything else is still renamed; the driver evaluated '
            'with recorders: the three consumers receive the caller\'s names (None / str / list / tuple spellings) plus the binder-preserved names, the caller\'s list is '
            'untouched; command line route; AWS entrypoint. White-box (optional): gates and reservation worlds',
            'abstract interpretation of the whole pipeline and of the driver over enumerated argument spellings'),
    'C11': ('no in-place mutation of any caller argument (followed through callee summaries), no write to module/class level state from reachable code, no mutable object created '
            'at module level leaves its name (stored, returned, passed on, advanced, mutated - followed into callees), set-typed values consumed only order-insensitively, no '
            'nondeterminism source reachable; true thread interleavings beyond absence of shared writable state are NOT decided',
            'effect (purity / escape) summaries over the receiver-sensitive call graph'),
    'C12': ('inventory and reachability of every dynamic-execution sink; what reaches each eval() is decided by running the quoting classes on crafted strings (quote runs, '
            'backslash-quote, comment / operator tails) and the real pipeline with constant_folding on arithmetic over every operand kind (only closed literal text may '
            'arrive); no I/O outside the CLI module; dynamic attribute names derive from literals / class names / field names; escaping for every string is NOT decided',
            'who-may-call rule + abstract interpretation of the code in front of each sink on crafted inputs + derivation dataflow for dynamic attribute names'),
    'C13': ('main() evaluated end to end in a modelled environment (real argparse driven by the repository\'s calls; file system incl. scandir / walk, stdio as objects, environment '
            'and minify() answered by the checker): flags -> keyword arguments (none, each alone, annotation vectors, list spellings; thorough: all pairs), 112 validation '
            'shapes, output modes x per-source answers (also byte-identical files): payloads, size rule, channels, listing; documented flags exist; flag subsets larger than '
            'pairs are NOT decided',
            'abstract interpretation of the entry point over enumerated scenarios, compared with the documented behaviour'),
    'C14': ('main() evaluated end to end over output modes x answers that are shorter / longer / longer only in bytes / equal, mixed along the file list and on byte-identical files, '
            'with and without the override, plus boundary length cases: every destination receives at most len(source) bytes; only environment read is the override',
            'abstract interpretation of the entry point over enumerated scenarios + syntactic scan for environment reads'),
    'C15': ('main() evaluated end to end on a modelled directory tree (python and near-miss suffixes, nested and symlinked directories, byte-identical files): selection, destinations, '
            'binary channels, destination opened only after minify() returned, failing / unreadable file or unlistable directory ends the run and later files are untouched; '
            'no other file-system mutation in the package; atomicity of the final write is NOT decided',
            'abstract interpretation of the entry point over enumerated scenarios + syntactic scan for file-system mutators'),
    'C16': ('source reaches the interpreter\'s parser untouched (API driver and CLI evaluated on BOM / CR / cookie / undecodable sources), strict UTF-8 of what is written, shebang '
            'handling evaluated through minify() on enumerated first lines for text and bytes, literal emitters evaluated on crafted values; meaning preservation per codec is NOT decided',
            'abstract interpretation of the driver, the shebang finder, the literal emitters and the entry point on crafted inputs'),
    'C17': (E2E + ' twice per (probe, size option): the printed module with the option on is never longer than with it off (every other option off; thorough: also at defaults); '
            'folds kept only where strictly shorter (enumerated with C07). White-box (optional): cost model vs printed size over reference forms x name lengths x use counts, '
            'hoisting cost, the assignment loop on 64 scenarios, classifier agreement, processing order; aggregate accuracy of the cost model on real code is NOT decided',
            'abstract interpretation of the whole pipeline and printer on probe programs + abstract enumeration of cost functions and assignment loop'),
}

DESIGN_REF = {p: 'DESIGN.md section 4, ' + p for p in TEXT}

NOTE = ('Trusted base: CPython\'s ast/tokenize/symtable/argparse as reference tables; the analyser itself (pmstatic); hand-written probe templates and the '
        'classification of ASDL identifier fields, reference rewrites and oracles (alpha-equivalence, de-hoisting) written in the checker. A pass means every obligation '
        '(a necessary condition of the property, decided on a finite domain of probe programs / scenarios / cells) is discharged on the current tree - not that the '
        'behavioural property is proved. No code of the repository is run by CPython: it is evaluated by the checker\'s own interpreter over its syntax tree. '
        'White-box rules written against internal names are reported as not evaluated (evidence: not_evaluated) when those names no longer exist; the end-to-end '
        'rules, anchored on minify / unparse / main and the documented options only, always run. Reference grammar is the interpreter running the check (CPython 3.12).')


def main():
    built = []
    not_built = []
    for p in sorted(TEXT):
        try:
            importlib.import_module('pmstatic.props.' + p.lower())
            built.append(p)
        except ImportError:
            not_built.append(p)
    checks = []
    for p in built:
        text, tech = TEXT[p]
        checks.append({
            'property_id': p,
            'quick_cmd': './check %s --tier quick' % p,
            'thorough_cmd': './check %s --tier thorough' % p,
            'evidence_file': 'evidence/%s.json' % p,
            'replay_cmd_template': './check %s --replay {path}' % p,
            'engine': 'pmstatic',
            'level_claimed': {'category': 'other', 'text': 'static analysis of structural necessary conditions: ' + text, 'design_ref': DESIGN_REF[p]},
            'level_note': NOTE,
            'technique': 'static analysis: ' + tech,
        })
    man = {
        'version': 1,
        'setup_cmd': 'cd /verif && (/venv/bin/python -m compileall -q pmstatic || python3 -m compileall -q pmstatic)',
        'hooks': {
            'guard': 'DFLOOK_PYTHON_MINIFIER_VERIF',
            'enable': 'none needed: the checks read the source tree of /repo and never build, import or run it',
            'baseline_off_cmd': 'cd /repo && /venv/bin/python -m pytest -ra -q -p no:cacheprovider --timeout=900 --continue-on-collection-errors',
            'source_commits': [],
            'add_only': True,
        },
        'engines': [{'name': 'pmstatic', 'path': 'pmstatic/', 'serves_properties': built,
                     'kind_free_text': 'repository-specific static analyser: source model + receiver-sensitive call graph + path-fact (must) analysis + effect summaries '
                                       '+ abstract interpreter over AST-class descriptors, probe programs and modelled environments (CLI, API driver, whole pipeline) + interpreter-derived oracles (ASDL, parser, tokenizer, symtable, argparse, compile) + reference rewrites'}],
        'checks': checks,
        'not_applicable': [{'property_id': p, 'reason': 'check not built yet in this session (static rules are specified in DESIGN.md section 4)'} for p in not_built],
        'notes': 'All checks are static: they parse /repo/src/python_minifier on every run and never import or execute it. Exit 0 = obligations discharged / known finding, '
                 '1 = VIOLATION, 2 = ANALYSIS-ERROR (no verdict). See DESIGN.md.',
    }
    with open(os.path.join(HERE, 'MANIFEST.json'), 'w') as f:
        json.dump(man, f, indent=1)
        f.write('\n')
    print('MANIFEST.json: %d checks, %d not built' % (len(checks), len(not_built)))


if __name__ == '__main__':
    main()
