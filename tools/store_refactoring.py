"""Store a behaviour-preserving refactoring of /repo (a scratch tree) as a must-stay-silent battery set.

usage: store_refactoring.py <scratch tree> <refactor_rN>
Writes pmstatic/battery_files/<name>/<rel>.txt for every source file that differs from /repo and ORIGIN.json with the digest of the /repo file the
variant was written against (the set is skipped, not failed, when the tree moves on).
"""
import hashlib
import json
import os
import sys

tree, name = sys.argv[1], sys.argv[2]
base = os.path.join(os.path.dirname(os.path.dirname(os.path.abspath(__file__))), 'pmstatic', 'battery_files', name)
origin = {}
import subprocess
# only the files the refactoring itself touched (the scratch tree may be based on an older commit of /repo than the current one)
touched = None
try:
    out = subprocess.run(['git', '-C', tree, 'diff', '--name-only', '--', 'src'], stdout=subprocess.PIPE, text=True, check=True).stdout.split()
    touched = set(out) if out else None
except Exception:
    touched = None
for root, _dirs, files in os.walk(os.path.join(tree, 'src')):
    for f in files:
        if not f.endswith('.py'):
            continue
        p = os.path.join(root, f)
        rel = os.path.relpath(p, tree)
        new = open(p, encoding='utf-8').read()
        cur_p = os.path.join('/repo', rel)
        cur = open(cur_p, encoding='utf-8').read() if os.path.exists(cur_p) else None
        if cur is None or cur == new or (touched is not None and rel not in touched):
            continue
        origin[rel] = hashlib.sha256(cur.encode()).hexdigest()
        out = os.path.join(base, rel + '.txt')
        os.makedirs(os.path.dirname(out), exist_ok=True)
        with open(out, 'w', encoding='utf-8') as g:
            g.write(new)
with open(os.path.join(base, 'ORIGIN.json'), 'w') as g:
    json.dump(origin, g, indent=1)
print(name, len(origin), 'files')
