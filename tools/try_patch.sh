#!/bin/sh
# usage: tools/try_patch.sh <patch.diff> <Cxx> [<Cyy> ...]   -- runs checks against a scratch copy of /repo with the patch applied (never touches /repo)
set -e
P="$1"; shift
D=$(mktemp -d /tmp/pm_try_XXXXXX)
mkdir -p "$D/docs" && cp -r /repo/src "$D/src" && cp -r /repo/docs/source "$D/docs/source"
(cd "$D" && patch -s -p1 < "$P")
cd /verif
for c in "$@"; do ./check "$c" --repo "$D" --no-write 2>&1 | grep -v "note:" | cut -c1-420 | tail -${TAILN:-7}; done
rm -rf "$D"
