#!/usr/bin/env python3
"""Regenerates the seeded-change table of DESIGN.md (between the SEED-TABLE markers) from /verif/seeded/*/meta.json."""
import json
import os
import re

HERE = os.path.dirname(os.path.dirname(os.path.abspath(__file__)))
rows = []
for sfx in 'abcdef':
    for i in range(1, 18):
        sid = 'C%02d%s' % (i, sfx)
        f = os.path.join(HERE, 'seeded', sid, 'meta.json')
        if not os.path.exists(f):
            continue
        m = json.load(open(f))
        rep = []
        for p, v in sorted(m.get('checks_reporting', {}).items()):
            if v['exit'] == 1:
                rules = set()
                for d in v.get('detail', []) + v.get('lines', []):
                    rules.update(re.findall(r'(C\d\d\.[A-Z0-9]+)', d))
                rep.append(', '.join(sorted(rules)) or p)
        rows.append('| %s | %s | %s | %s | %s |' % (sid, m.get('description', '').replace('|', '/'), 'yes' if m.get('confirmed') else 'NO',
                                                    'yes' if m.get('caught_by_own_property_check') else 'no', '; '.join(rep) or '**none**'))
p = os.path.join(HERE, 'DESIGN.md')
s = open(p).read()
a = s.index('<!-- SEED-TABLE -->')
b = s.index('<!-- /SEED-TABLE -->') + len('<!-- /SEED-TABLE -->') if '<!-- /SEED-TABLE -->' in s else a + len('<!-- SEED-TABLE -->')
s = s[:a] + '<!-- SEED-TABLE -->\n\n| seed | change | confirmed | own | reported by |\n|------|--------|-----------|-----|-------------|\n' + '\n'.join(rows) + '\n' + '\n<!-- /SEED-TABLE -->' + s[b:]
open(p, 'w').write(s)
print(len(rows), 'rows')
